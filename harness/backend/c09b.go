//go:build verif

package backend

import (
	"fmt"
	"os"
	"path/filepath"
	"sort"
	"strings"
	"testing"

	"github.com/google/licenseclassifier/v2/assets"
)

// C09 (CLI fan-out part) — the identify_license backend calls Match from up to
// 1000 goroutines on one classifier and collects results and errors from them.
// Built with -race by the driver. Oracle: the multiset of results equals what a
// separately built classifier returns file by file, and there is exactly one
// error per unreadable file, whatever the number of tasks.
func TestVerifC09Backend(t *testing.T) {
	e := vStart(t, "C09")
	defer e.finish()
	e.everyShard = true
	ref, err := assets.DefaultClassifier()
	if err != nil {
		t.Fatal(err)
	}
	rounds := e.pick(4, 16)
	for idx := 0; idx < rounds; idx++ {
		idx := idx
		e.run(2000+idx, "backend-fanout", map[string]interface{}{"process": e.shard}, func(cs *vCase) {
			r := cs.rng
			dir := filepath.Join(e.scratch, fmt.Sprintf("c09b_%d_%d_%d", e.shard, idx, os.Getpid()))
			os.MkdirAll(dir, 0755)
			defer os.RemoveAll(dir)
			lic := []string{"License/MIT/pristine.txt", "License/ISC/pristine.txt", "License/BSD-3-Clause/pristine.txt", "License/Zlib/license.txt", "Header/Apache-2.0/header.txt"}
			var files []string
			want := map[string]int{}
			unreadable := 0
			n := 20 + r.Intn(60)
			for i := 0; i < n; i++ {
				p := filepath.Join(dir, fmt.Sprintf("f%03d.txt", i))
				switch r.Intn(6) {
				case 0: // does not exist
					unreadable++
				case 1: // dangling symbolic link
					os.Symlink(filepath.Join(dir, "nowhere", fmt.Sprint(i)), p)
					unreadable++
				case 2: // a directory where a file is expected
					os.MkdirAll(p, 0755)
					unreadable++
				default:
					var sb strings.Builder
					for k, m := 0, 1+r.Intn(2); k < m; k++ {
						b, _ := assets.ReadLicenseFile(lic[r.Intn(len(lic))])
						sb.WriteString("zqxxqq zqkkvv\n")
						sb.Write(b)
						sb.WriteString("\n")
					}
					if r.Intn(3) == 0 {
						sb.WriteString("Copyright 2020 Example Corp\n")
					}
					os.WriteFile(p, []byte(sb.String()), 0644)
					for _, m := range ref.Match([]byte(sb.String())).Matches {
						want[fmt.Sprintf("%s|%s|%s|%s|%v|%d|%d", p, m.MatchType, m.Name, m.Variant, m.Confidence, m.StartLine, m.EndLine)]++
					}
				}
				files = append(files, p)
			}
			tasks := []int{2, 7, 64, 1000}[idx%4]
			b, err := New()
			if err != nil {
				cs.violation("backend-new", "%v", err)
				return
			}
			errs := b.ClassifyLicenses(tasks, files, true)
			if len(errs) != unreadable {
				cs.violation("errors-lost", "ClassifyLicenses(tasks=%d) over %d files of which %d cannot be read returned %d errors", tasks, len(files), unreadable, len(errs))
				return
			}
			got := map[string]int{}
			for _, m := range b.GetResults() {
				got[fmt.Sprintf("%s|%s|%s|%s|%v|%d|%d", m.Filename, m.MatchType, m.Name, m.Variant, m.Confidence, m.StartLine, m.EndLine)]++
			}
			var diff []string
			for k, v := range want {
				if got[k] != v {
					diff = append(diff, fmt.Sprintf("%s: want %d got %d", k, v, got[k]))
				}
			}
			for k, v := range got {
				if want[k] == 0 {
					diff = append(diff, fmt.Sprintf("%s: unexpected x%d", k, v))
				}
			}
			if len(diff) > 0 {
				sort.Strings(diff)
				cs.violation("backend-results-differ", "ClassifyLicenses(tasks=%d, %d files): %d result lines differ from sequential Match, e.g. %s", tasks, len(files), len(diff), diff[0])
				return
			}
			e.count("backend_files", int64(len(files)))
			e.count("backend_unreadable", int64(unreadable))
			cs.nontrivial("backend", idx, e.shard)
		})
	}
}
