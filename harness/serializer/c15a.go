//go:build verif

package serializer

import (
	"bytes"
	"encoding/json"
	"fmt"
	"math/rand"
	"os"
	"path/filepath"
	"sort"
	"strings"
	"testing"

	"github.com/google/licenseclassifier"
)

// C15, step 1 — the REAL ArchiveLicenses writes archives for seeded subsets of
// the license files (and for synthetic license files served through the
// exported licenseclassifier.ReadLicenseFile variable). Step 2 (package
// licenseclassifier) loads them; an in-package test of the root package cannot
// import this package (import cycle), hence the two steps.

type vArchiveDesc struct {
	File  string   `json:"file"`
	Names []string `json:"names"` // file names in archive order
	Kind  string   `json:"kind"`
}

func vSynthLicense(r *rand.Rand, n int) string {
	words := []string{"software", "license", "permission", "granted", "copy", "modify", "distribute", "warranty", "liability", "notice", "rights", "terms", "work", "source", "binary", "derivative", "author", "holder", "condition", "provided", "without", "fitness", "purpose", "merchantability", "damages", "claim", "contract", "tort", "use", "sell"}
	var sb strings.Builder
	for i := 0; i < n; i++ {
		w := words[r.Intn(len(words))]
		if r.Intn(6) == 0 {
			w = fmt.Sprintf("%s%c%c", w, 'a'+r.Intn(26), 'a'+r.Intn(26))
		}
		sb.WriteString(w)
		switch {
		case i%11 == 10:
			sb.WriteString(".\n")
		case r.Intn(9) == 0:
			sb.WriteString(", ")
		default:
			sb.WriteByte(' ')
		}
	}
	return sb.String()
}

func TestVerifC15Archive(t *testing.T) {
	e := vStart(t, "C15")
	defer e.finish()
	outDir := filepath.Join(e.scratch, "c15")
	os.MkdirAll(filepath.Join(outDir, "files"), 0755)
	entries, err := licenseclassifier.ReadLicenseDir()
	if err != nil {
		t.Fatal(err)
	}
	var all []string
	for _, en := range entries {
		if strings.HasSuffix(en.Name(), ".txt") {
			all = append(all, en.Name())
		}
	}
	sort.Strings(all)
	if len(all) < 150 {
		t.Fatalf("only %d license files found", len(all))
	}
	// synthetic files are served through the exported variable
	synth := map[string]string{}
	orig := licenseclassifier.ReadLicenseFile
	licenseclassifier.ReadLicenseFile = func(name string) ([]byte, error) {
		if s, ok := synth[name]; ok {
			return []byte(s), nil
		}
		return orig(name)
	}
	defer func() { licenseclassifier.ReadLicenseFile = orig }()

	type plan struct {
		kind string
		n    int
	}
	var plans []plan
	if os.Getenv("VERIF_C15_PLAN") == "full-only" {
		plans = []plan{{"full", len(all)}}
	} else if os.Getenv("VERIF_C15_PLAN") == "short12" {
		plans = []plan{{"short", 12}}
	} else if e.quick() {
		plans = []plan{{"subset", 10}, {"subset", 14}, {"subset", 18}, {"subset", 25}, {"synthetic", 8}, {"mixed", 12}}
	} else {
		for k := 0; k < 38; k++ {
			plans = append(plans, plan{"subset", 5 + (k*7)%40})
		}
		plans = append(plans, plan{"full", len(all)})
		for k := 0; k < 20; k++ {
			plans = append(plans, plan{[]string{"synthetic", "mixed"}[k%2], 4 + k})
		}
	}
	var descs []vArchiveDesc
	for idx, pl := range plans {
		idx, pl := idx, pl
		e.run(idx, "archive-"+pl.kind, map[string]interface{}{"n": pl.n}, func(cs *vCase) {
			r := cs.rng
			var names []string
			switch pl.kind {
			case "full":
				names = append(names, all...)
			case "short":
				// short license files only (no diff can reach go-diff's deadline)
				for _, i := range r.Perm(len(all)) {
					if c, err := orig(all[i]); err == nil && len(c) < 2500 && len(names) < pl.n {
						names = append(names, all[i])
					}
				}
			case "subset":
				for _, i := range r.Perm(len(all))[:pl.n] {
					names = append(names, all[i])
				}
			case "synthetic", "mixed":
				for k := 0; k < pl.n; k++ {
					n := fmt.Sprintf("Syn%d-%d.txt", idx, k)
					if k%4 == 3 {
						n = fmt.Sprintf("Syn%d-%d.header.txt", idx, k)
					}
					if k == 0 {
						// the same file name in every synthetic archive, each time with another
						// text (archives are loaded one after the other in one process)
						n = "SynShared.txt"
					}
					synth[n] = vSynthLicense(r, 30+r.Intn(400))
					if k == 2 || (k == 5 && pl.n > 6) {
						// a license whose normalised text has only one or two words
						synth[n] = []string{"license", "software license", "Public Domain software.\n", "terms"}[r.Intn(4)]
					}
					if k == 1 || (k == 3 && pl.n > 5) {
						// a file whose normalised text is empty (notice only / punctuation only /
						// blank): still one (text, hash) pair in the archive
						synth[n] = []string{"Copyright (c) 2020 Example Corp. All rights reserved.\n", "-----\n*****\n", "\n\n", "#!/bin/sh\n"}[r.Intn(4)]
					}
					os.WriteFile(filepath.Join(outDir, "files", n), []byte(synth[n]), 0644)
					os.WriteFile(filepath.Join(outDir, "files", fmt.Sprintf("a%03d_%s", idx, n)), []byte(synth[n]), 0644)
					names = append(names, n)
				}
				if pl.kind == "mixed" {
					for _, i := range r.Perm(len(all))[:pl.n/2] {
						names = append(names, all[i])
					}
					r.Shuffle(len(names), func(i, j int) { names[i], names[j] = names[j], names[i] })
				}
			}
			// a file without the .txt extension must be skipped by ArchiveLicenses
			withJunk := append(append([]string{}, names...), "README.md")
			var buf bytes.Buffer
			if err := ArchiveLicenses(withJunk, &buf); err != nil {
				cs.violation("archive-error", "ArchiveLicenses(%v) = %v", names, err)
				return
			}
			f := filepath.Join(outDir, fmt.Sprintf("arch_%03d.db", idx))
			if err := os.WriteFile(f, buf.Bytes(), 0644); err != nil {
				cs.inconclusive("cannot write archive: %v", err)
				return
			}
			descs = append(descs, vArchiveDesc{File: f, Names: names, Kind: pl.kind})
			e.count("archives_written", 1)
			e.count("archive_bytes", int64(buf.Len()))
			cs.nontrivial(pl.kind, idx)
		})
	}
	e.wg.Wait()
	sort.Slice(descs, func(i, j int) bool { return descs[i].File < descs[j].File })
	b, _ := json.Marshal(descs)
	os.WriteFile(filepath.Join(outDir, "archives.json"), b, 0644)
}
