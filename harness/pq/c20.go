//go:build verif

package pq

import (
	"fmt"
	"math/rand"
	"sort"
	"strings"
	"testing"
)

// C20 (queue part) — the priority queue always pops a minimal element under its
// comparator, keeps the indices it reports through setIndex accurate across
// Push, Pop, Fix and Remove, and conserves the multiset of elements.

type vItem struct {
	prio  int
	id    int
	index int // maintained only through the setIndex callback
}

type vQState struct {
	q     *Queue
	items map[int]*vItem // id -> item currently in the queue (model)
	next  int
}

func vNewQ() *vQState {
	st := &vQState{items: map[int]*vItem{}}
	st.q = NewQueue(func(x, y interface{}) bool { return x.(*vItem).prio < y.(*vItem).prio },
		func(x interface{}, idx int) { x.(*vItem).index = idx })
	return st
}

// check verifies all invariants against the model after a step.
func (st *vQState) check() string {
	if st.q.Len() != len(st.items) {
		return fmt.Sprintf("Len() = %d, model has %d elements", st.q.Len(), len(st.items))
	}
	a := st.q.heap.a
	if len(a) != len(st.items) {
		return fmt.Sprintf("heap holds %d elements, model %d", len(a), len(st.items))
	}
	seen := map[int]bool{}
	for pos, x := range a {
		it := x.(*vItem)
		if st.items[it.id] != it {
			return fmt.Sprintf("heap position %d holds element id=%d which is not in the model (multiset not conserved)", pos, it.id)
		}
		if seen[it.id] {
			return fmt.Sprintf("element id=%d is in the heap twice", it.id)
		}
		seen[it.id] = true
		if it.index != pos {
			return fmt.Sprintf("element id=%d prio=%d sits at position %d but the last setIndex told it %d", it.id, it.prio, pos, it.index)
		}
		if pos > 0 {
			parent := a[(pos-1)/2].(*vItem)
			if it.prio < parent.prio {
				return fmt.Sprintf("heap order violated at position %d (prio %d < parent's %d)", pos, it.prio, parent.prio)
			}
		}
	}
	if len(a) > 0 {
		min := st.q.Min().(*vItem)
		for _, it := range st.items {
			if it.prio < min.prio {
				return fmt.Sprintf("Min() has prio %d but an element with prio %d is queued", min.prio, it.prio)
			}
		}
	}
	return ""
}

type vQOp struct {
	kind string // push pop fix remove
	a, b int    // push: prio a; fix: position a, new prio b; remove: position a
}

func (o vQOp) String() string {
	switch o.kind {
	case "push":
		return fmt.Sprintf("push(%d)", o.a)
	case "pop":
		return "pop"
	case "fix":
		return fmt.Sprintf("fix(pos %d -> prio %d)", o.a, o.b)
	}
	return fmt.Sprintf("remove(pos %d)", o.a)
}

// step applies o if it is applicable in the current state (positions are taken
// modulo the current length). Returns (applied, disagreement).
func (st *vQState) step(o vQOp) (bool, string) {
	n := st.q.Len()
	switch o.kind {
	case "push":
		it := &vItem{prio: o.a, id: st.next, index: -1}
		st.next++
		st.items[it.id] = it
		st.q.Push(it)
	case "pop":
		if n == 0 {
			return false, ""
		}
		minPrio := 1 << 30
		for _, it := range st.items {
			if it.prio < minPrio {
				minPrio = it.prio
			}
		}
		it := st.q.Pop().(*vItem)
		if st.items[it.id] != it {
			return true, fmt.Sprintf("Pop() returned id=%d which was not queued", it.id)
		}
		if it.prio != minPrio {
			return true, fmt.Sprintf("Pop() returned prio %d but the minimum queued is %d", it.prio, minPrio)
		}
		delete(st.items, it.id)
	case "fix":
		if n == 0 {
			return false, ""
		}
		pos := o.a % n
		it := st.q.heap.a[pos].(*vItem)
		it.prio = o.b
		st.q.Fix(it.index) // through the index the queue reported
	case "remove":
		if n == 0 {
			return false, ""
		}
		pos := o.a % n
		it := st.q.heap.a[pos].(*vItem)
		st.q.Remove(it.index)
		delete(st.items, it.id)
	}
	return true, st.check()
}

func TestVerifC20PQ(t *testing.T) {
	e := vStart(t, "C20")
	defer e.finish()
	idx := 0
	// (1) exhaustive short histories
	var alpha []vQOp
	for p := 0; p < 3; p++ {
		alpha = append(alpha, vQOp{kind: "push", a: p})
	}
	alpha = append(alpha, vQOp{kind: "pop"})
	for pos := 0; pos < 3; pos++ {
		alpha = append(alpha, vQOp{kind: "remove", a: pos})
		for p := 0; p < 3; p++ {
			alpha = append(alpha, vQOp{kind: "fix", a: pos, b: p})
		}
	}
	depth := e.pick(5, 6)
	for first := range alpha {
		first := first
		e.run(idx, "exhaustive-queue", map[string]interface{}{"first_op": alpha[first].String(), "depth": depth, "alphabet": len(alpha)}, func(cs *vCase) {
			seq := make([]int, depth)
			seq[0] = first
			n := 0
			var rec func(d int) bool
			rec = func(d int) bool {
				if d == depth-1 {
					n++
					st := vNewQ()
					for i := 0; i <= d; i++ {
						if _, why := st.step(alpha[seq[i]]); why != "" {
							var names []string
							for j := 0; j <= i; j++ {
								names = append(names, alpha[seq[j]].String())
							}
							cs.violation("queue-model-mismatch", "history [%s]: %s", strings.Join(names, "; "), why)
							return false
						}
					}
					return true
				}
				for k := range alpha {
					seq[d+1] = k
					if !rec(d + 1) {
						return false
					}
				}
				return true
			}
			rec(0)
			e.count("queue_histories", int64(n))
			cs.nontrivial("pq-exh", first)
		})
		idx++
	}
	// (2) seeded long histories with many ties
	nr := e.pick(400, 20000)
	for k := 0; k < nr; k++ {
		e.run(idx, "random-queue", map[string]interface{}{"k": k}, func(cs *vCase) {
			r := rand.New(rand.NewSource(cs.rng.Int63()))
			st := vNewQ()
			steps := 200 + r.Intn(1800)
			np := 2 + r.Intn(20)
			var trace []string
			popped := []int{}
			for i := 0; i < steps; i++ {
				o := vQOp{kind: []string{"push", "push", "push", "pop", "pop", "fix", "remove"}[r.Intn(7)], a: r.Intn(np), b: r.Intn(np)}
				if o.kind == "fix" || o.kind == "remove" {
					o.a = r.Intn(64)
				}
				trace = append(trace, o.String())
				if len(trace) > 12 {
					trace = trace[1:]
				}
				if _, why := st.step(o); why != "" {
					cs.violation("queue-model-mismatch", "step %d of a random history (last ops: %s): %s", i, strings.Join(trace, "; "), why)
					return
				}
			}
			// drain: must come out in non-decreasing priority order
			for st.q.Len() > 0 {
				it := st.q.Pop().(*vItem)
				popped = append(popped, it.prio)
				delete(st.items, it.id)
			}
			if !sort.IntsAreSorted(popped) {
				cs.violation("queue-model-mismatch", "draining the queue gave priorities %v", popped)
				return
			}
			if len(st.items) != 0 {
				cs.violation("queue-model-mismatch", "%d elements were lost", len(st.items))
				return
			}
			e.count("random_queue_steps", int64(steps))
			cs.nontrivial("pq-rand", cs.idx)
		})
		idx++
	}
}
