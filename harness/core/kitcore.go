//go:build verif

// Generic part of the runtime-monitoring kit: environment, event log, worker
// pool, case bookkeeping. The driver copies this file into every package under
// test (replacing the package clause) through the go test -overlay mechanism.
package PKGNAME

import (
	"bytes"
	"encoding/base64"
	"encoding/binary"
	"encoding/json"
	"fmt"
	"hash/fnv"
	"math/rand"
	"os"
	"runtime/debug"
	"strconv"
	"strings"
	"sync"
	"testing"
	"time"
)

// ---------------------------------------------------------------------------
// environment / event log

type vEnv struct {
	prop    string
	seed    int64
	tier    string
	shard   int
	nshards int
	only    int // run only this case index (-1: all)
	from    int // skip case indices below this one
	logPath string
	scratch string

	mu       sync.Mutex
	logf     *os.File
	sigf     *os.File
	evals    int64
	nontriv  int64
	viol     int64
	inconc   int64
	kf       map[string]int64
	counters map[string]int64
	samples  int
	start    time.Time

	// worker pool: cases run in up to `workers` goroutines of this process;
	// slot i holds the case in flight on worker i (-1: idle), guarded by mu
	workers    int
	slots      chan int
	slotIdx    []int64
	slotT      []time.Time
	skip       map[int]bool
	wg         sync.WaitGroup
	everyShard bool     // every shard runs every case (cross-process oracles)
	slow       []string // the slowest cases (diagnostics)
	slowT      []float64
}

func vGetenvInt(name string, def int) int {
	if s := os.Getenv(name); s != "" {
		if n, err := strconv.Atoi(s); err == nil {
			return n
		}
	}
	return def
}

// vStart reads the VERIF_* environment; a harness test that is run without
// VERIF_LOG (e.g. by a plain `go test -tags verif ./...`) is skipped.
func vStart(t *testing.T, prop string) *vEnv {
	lp := os.Getenv("VERIF_LOG")
	if lp == "" || os.Getenv("VERIF_PROP") != prop {
		t.Skip("verif harness: not selected")
	}
	e := &vEnv{prop: prop, logPath: lp, kf: map[string]int64{}, counters: map[string]int64{}, start: time.Now()}
	e.seed = int64(vGetenvInt("VERIF_SEED", 1))
	e.tier = os.Getenv("VERIF_TIER")
	if e.tier == "" {
		e.tier = "quick"
	}
	e.shard = vGetenvInt("VERIF_SHARD", 0)
	e.nshards = vGetenvInt("VERIF_NSHARDS", 1)
	e.only = vGetenvInt("VERIF_ONLY", -1)
	e.from = vGetenvInt("VERIF_FROM", 0)
	e.scratch = os.Getenv("VERIF_SCRATCH")
	var err error
	e.logf, err = os.OpenFile(lp, os.O_APPEND|os.O_CREATE|os.O_WRONLY, 0644)
	if err != nil {
		t.Fatalf("verif: cannot open log: %v", err)
	}
	e.sigf, err = os.OpenFile(lp+".sigs", os.O_APPEND|os.O_CREATE|os.O_WRONLY, 0644)
	if err != nil {
		t.Fatalf("verif: cannot open sig file: %v", err)
	}
	e.workers = vGetenvInt("VERIF_WORKERS", 1)
	if e.workers < 1 {
		e.workers = 1
	}
	e.slots = make(chan int, e.workers)
	e.slotIdx = make([]int64, e.workers)
	e.slotT = make([]time.Time, e.workers)
	for i := 0; i < e.workers; i++ {
		e.slots <- i
		e.slotIdx[i] = -1
	}
	e.skip = map[int]bool{}
	for _, f := range strings.Split(os.Getenv("VERIF_SKIP"), ",") {
		if n, err := strconv.Atoi(strings.TrimSpace(f)); err == nil {
			e.skip[n] = true
		}
	}
	go e.watchdog(time.Duration(vGetenvInt("VERIF_CASE_TIMEOUT", 120)) * time.Second)
	e.event(map[string]interface{}{"ev": "run", "prop": prop, "seed": e.seed, "tier": e.tier, "shard": e.shard, "nshards": e.nshards, "only": e.only, "from": e.from, "pid": os.Getpid()})
	return e
}

func (e *vEnv) quick() bool { return e.tier != "thorough" }

// pick returns q in the quick tier and th in the thorough tier.
func (e *vEnv) pick(q, th int) int {
	if e.quick() {
		return q
	}
	return th
}

func (e *vEnv) event(m map[string]interface{}) {
	b, err := json.Marshal(m)
	if err != nil {
		b = []byte(fmt.Sprintf(`{"ev":"logerror","err":%q}`, err.Error()))
	}
	e.mu.Lock()
	e.logf.Write(append(b, '\n'))
	e.mu.Unlock()
}

func (e *vEnv) count(name string, n int64) {
	e.mu.Lock()
	e.counters[name] += n
	e.mu.Unlock()
}

// watchdog ends the process when one case runs longer than the budget. The
// driver re-runs that case alone with ten times the budget before calling it
// a hang.
func (e *vEnv) watchdog(budget time.Duration) {
	for {
		time.Sleep(500 * time.Millisecond)
		e.mu.Lock()
		var late []int64
		for i, idx := range e.slotIdx {
			if idx >= 0 && time.Since(e.slotT[i]) > budget {
				late = append(late, idx)
			}
		}
		e.mu.Unlock()
		if len(late) > 0 {
			e.event(map[string]interface{}{"ev": "watchdog", "late": late, "budget_s": budget.Seconds()})
			os.Exit(97)
		}
	}
}

// finish writes the per-shard statistics; the driver fails a run whose shards
// do not all end with a `done` event.
func (e *vEnv) finish() {
	e.wg.Wait()
	e.mu.Lock()
	cs := map[string]int64{}
	for k, v := range e.counters {
		cs[k] = v
	}
	kf := map[string]int64{}
	for k, v := range e.kf {
		kf[k] = v
	}
	m := map[string]interface{}{"ev": "done", "prop": e.prop, "shard": e.shard, "evaluations": e.evals, "nontrivial": e.nontriv, "violations": e.viol, "inconclusive": e.inconc, "kf": kf, "counters": cs, "wall_s": time.Since(e.start).Seconds(), "slowest": append([]string{}, e.slow...)}
	e.mu.Unlock()
	e.event(m)
	e.logf.Close()
	e.sigf.Close()
}

// ---------------------------------------------------------------------------
// cases

type vCase struct {
	e       *vEnv
	idx     int
	gen     string
	params  map[string]interface{}
	rng     *rand.Rand
	input   []byte
	inputs  map[string][]byte
	verdict string
	kind    string
	detail  string
	kfid    string
	nontriv bool
	sig     uint64
	obs     map[string]interface{}
	slot    int
	emit    bool // always log the observations of this case (ev=obs)
}

func vCaseSeed(seed int64, prop string, idx int) int64 {
	h := fnv.New64a()
	fmt.Fprintf(h, "%d/%s/%d", seed, prop, idx)
	return int64(h.Sum64() & 0x7fffffffffffffff)
}

// selected tells whether this process is responsible for case idx.
func (e *vEnv) selected(idx int) bool {
	if e.only >= 0 {
		return idx == e.only
	}
	if idx < e.from || e.skip[idx] {
		return false
	}
	return e.everyShard || idx%e.nshards == e.shard
}

// run executes one case body under recover(), after recording the case as
// in flight so that the driver can attribute a process death to it.
func (e *vEnv) run(idx int, gen string, params map[string]interface{}, body func(cs *vCase)) {
	if !e.selected(idx) {
		return
	}
	slot := <-e.slots
	cs := &vCase{e: e, idx: idx, gen: gen, params: params, rng: rand.New(rand.NewSource(vCaseSeed(e.seed, e.prop, idx))), verdict: "ok", slot: slot}
	inflight, _ := json.Marshal(map[string]interface{}{"idx": idx, "gen": gen, "params": params, "prop": e.prop, "seed": e.seed, "tier": e.tier})
	os.WriteFile(fmt.Sprintf("%s.inflight.%d", e.logPath, slot), inflight, 0644)
	e.mu.Lock()
	e.slotIdx[slot], e.slotT[slot] = int64(idx), time.Now()
	e.mu.Unlock()
	work := func() {
		func() {
			defer func() {
				if r := recover(); r != nil {
					st := debug.Stack()
					cs.verdict = "violation"
					cs.kind = "panic"
					if vPanicInHarness(st) {
						// the panic was raised by harness code itself, not by the code under test
						cs.kind = "harness-panic"
					}
					cs.detail = fmt.Sprintf("%v\n%s", r, vTrimStack(st))
					cs.kfid = ""
				}
			}()
			body(cs)
		}()
		e.mu.Lock()
		dt := time.Since(e.slotT[slot]).Seconds()
		e.slotIdx[slot] = -1
		if len(e.slowT) < 5 || dt > e.slowT[len(e.slowT)-1] {
			e.slowT = append(e.slowT, dt)
			e.slow = append(e.slow, fmt.Sprintf("%s#%d %.2fs", gen, idx, dt))
			for i := len(e.slowT) - 1; i > 0 && e.slowT[i] > e.slowT[i-1]; i-- {
				e.slowT[i], e.slowT[i-1] = e.slowT[i-1], e.slowT[i]
				e.slow[i], e.slow[i-1] = e.slow[i-1], e.slow[i]
			}
			if len(e.slowT) > 5 {
				e.slowT, e.slow = e.slowT[:5], e.slow[:5]
			}
		}
		e.mu.Unlock()
		os.Remove(fmt.Sprintf("%s.inflight.%d", e.logPath, slot))
		cs.end()
		e.slots <- slot
	}
	if e.workers == 1 {
		work()
		return
	}
	e.wg.Add(1)
	go func() {
		defer e.wg.Done()
		work()
	}()
}

// vPanicInHarness: is the frame that panicked (the first frame below the runtime's
// panic entries) a harness file?
func vPanicInHarness(stack []byte) bool {
	lines := strings.Split(string(stack), "\n")
	for i := 0; i+1 < len(lines); i++ {
		if strings.HasPrefix(lines[i], "panic(") {
			// skip further runtime frames (runtime.goPanicIndex etc.)
			for j := i + 2; j+1 < len(lines); j += 2 {
				if strings.HasPrefix(lines[j], "runtime.") || strings.HasPrefix(lines[j], "panic(") {
					continue
				}
				return strings.Contains(lines[j+1], "zz_verif_")
			}
		}
	}
	return false
}

func vTrimStack(b []byte) string {
	s := string(b)
	if len(s) > 3000 {
		s = s[:3000] + "..."
	}
	return s
}

// hostileInput records the bytes about to be handed to the code under test in
// a side file, so that they survive a fatal error of the process.
func (cs *vCase) hostileInput(b []byte) {
	cs.input = b
	os.WriteFile(fmt.Sprintf("%s.input.%d", cs.e.logPath, cs.slot), b, 0644)
}

func (cs *vCase) setInput(b []byte) { cs.input = b }
func (cs *vCase) addInput(name string, b []byte) {
	if cs.inputs == nil {
		cs.inputs = map[string][]byte{}
	}
	cs.inputs[name] = b
}

func (cs *vCase) violation(kind, format string, a ...interface{}) {
	if cs.verdict == "violation" {
		return // keep the first
	}
	cs.verdict = "violation"
	cs.kind = kind
	cs.detail = fmt.Sprintf(format, a...)
	cs.kfid = ""
}

// knownFinding marks the failure of this case as attributable to a listed
// finding; the driver only honours ids that are open in known_findings.json.
func (cs *vCase) knownFinding(id, kind, format string, a ...interface{}) {
	if cs.verdict == "violation" {
		return
	}
	cs.verdict = "violation"
	cs.kind = kind
	cs.detail = fmt.Sprintf(format, a...)
	cs.kfid = id
}

func (cs *vCase) inconclusive(format string, a ...interface{}) {
	if cs.verdict == "ok" {
		cs.verdict = "inconclusive"
		cs.detail = fmt.Sprintf(format, a...)
	}
}

// nontrivial marks the case as one in which the property had something to
// say; sig identifies the case for the distinct count.
func (cs *vCase) nontrivial(sig ...interface{}) {
	cs.nontriv = true
	h := fnv.New64a()
	fmt.Fprintf(h, "%s|", cs.gen)
	for _, s := range sig {
		switch v := s.(type) {
		case []byte:
			h.Write(v)
		case string:
			h.Write([]byte(v))
		default:
			fmt.Fprintf(h, "%v", v)
		}
		h.Write([]byte{0})
	}
	cs.sig = h.Sum64()
}

func (cs *vCase) observe(k string, v interface{}) {
	if cs.obs == nil {
		cs.obs = map[string]interface{}{}
	}
	cs.obs[k] = v
}

func vB64(b []byte) string {
	if len(b) > 1<<20 {
		return base64.StdEncoding.EncodeToString(b[:1<<20])
	}
	return base64.StdEncoding.EncodeToString(b)
}

func (cs *vCase) end() {
	e := cs.e
	e.mu.Lock()
	e.evals++
	if cs.nontriv {
		e.nontriv++
		var b [8]byte
		binary.LittleEndian.PutUint64(b[:], cs.sig)
		e.sigf.Write(b[:])
	}
	sample := false
	switch cs.verdict {
	case "violation":
		if cs.kfid != "" {
			e.kf[cs.kfid]++
		} else {
			e.viol++
		}
	case "inconclusive":
		e.inconc++
	default:
		if cs.nontriv && e.samples < 2 {
			e.samples++
			sample = true
		}
	}
	e.mu.Unlock()
	if cs.emit {
		e.event(map[string]interface{}{"ev": "obs", "idx": cs.idx, "gen": cs.gen, "shard": e.shard, "obs": cs.obs})
	}
	if cs.verdict == "ok" && !sample {
		return
	}
	m := map[string]interface{}{"ev": "case", "idx": cs.idx, "gen": cs.gen, "params": cs.params, "verdict": cs.verdict, "nontrivial": cs.nontriv}
	if sample {
		m["ev"] = "sample"
	}
	if cs.kind != "" {
		m["kind"] = cs.kind
	}
	if cs.detail != "" {
		m["detail"] = cs.detail
	}
	if cs.kfid != "" {
		m["kf"] = cs.kfid
	}
	if cs.obs != nil {
		m["obs"] = cs.obs
	}
	if cs.verdict != "ok" {
		if cs.input != nil {
			m["input_b64"] = vB64(cs.input)
			m["input_len"] = len(cs.input)
		}
		for k, v := range cs.inputs {
			m["input_"+k+"_b64"] = vB64(v)
		}
	} else if cs.input != nil {
		s := cs.input
		if len(s) > 240 {
			s = s[:240]
		}
		m["input_head"] = string(bytes.ToValidUTF8(s, []byte("?")))
		m["input_len"] = len(cs.input)
	}
	e.event(m)
}
