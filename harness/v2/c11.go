//go:build verif

package classifier

import (
	"fmt"
	"html"
	"math/rand"
	"regexp"
	"strings"
	"testing"
	"unicode"
)

// C11 — Normalize output lines up with Match positions and matches the same.
//
// (a) structural: line k of Normalize(in) holds exactly the words Match
//     attributes to line k of in (compared case-insensitively after applying the
//     published interchangeable-spelling map);
// (b) metamorphic: Match(Normalize(in)) == Match(in) on licenses, confidences,
//     token spans and line numbers (Copyright entries excluded).

// vSameWord: does the word w of the Normalize output stand for the Match token
// tok? Match lower-cases, rewrites https -> http and applies the interchangeable
// spellings; Normalize keeps the case of a word's first rune, so "HTTPS://x"
// stays "Httpsx" in its output (the https rewrite is case-sensitive).
func vSameWord(w, tok string) bool {
	norm := func(x string) string {
		if iw, ok := interchangeableWords[x]; ok {
			return iw
		}
		return x
	}
	l := strings.ToLower(w)
	return norm(l) == tok || norm(strings.ReplaceAll(l, "https", "http")) == tok
}

// vStructural checks (a). Returns "" if the invariant holds.
func vStructural(in, norm []byte) string {
	words, lines, _ := vRawTokens(in)
	byLine := map[int][]string{}
	maxLine := 0
	for i, w := range words {
		byLine[lines[i]] = append(byLine[lines[i]], w)
		if lines[i] > maxLine {
			maxLine = lines[i]
		}
	}
	out := strings.Split(string(norm), "\n")
	for k := 1; k <= len(out) || k <= maxLine; k++ {
		var got []string
		if k <= len(out) {
			got = strings.Fields(out[k-1])
		}
		want := byLine[k]
		same := len(got) == len(want)
		for i := 0; same && i < len(got); i++ {
			same = vSameWord(got[i], want[i])
		}
		if !same {
			g, w := strings.Join(got, " "), strings.Join(want, " ")
			if len(g) > 160 {
				g = g[:160] + "..."
			}
			if len(w) > 160 {
				w = w[:160] + "..."
			}
			return fmt.Sprintf("line %d of Normalize output holds %q but Match attributes %q to line %d", k, g, w, k)
		}
	}
	return ""
}

// vAlignDiff aligns two token sequences greedily (resynchronising on the next
// common token within a small window) and returns the indices of a-tokens and
// b-tokens that take part in a difference.
func vAlignDiff(a, b []string) (da, db []int) {
	i, j := 0, 0
	for i < len(a) && j < len(b) {
		if a[i] == b[j] {
			i++
			j++
			continue
		}
		// look for the nearest resynchronisation point
		best := -1
		bi, bj := 0, 0
		for s := 1; s <= 12 && best < 0; s++ {
			for x := 0; x <= s; x++ {
				y := s - x
				if i+x < len(a) && j+y < len(b) && a[i+x] == b[j+y] {
					best, bi, bj = s, x, y
					break
				}
			}
		}
		if best < 0 {
			bi, bj = 1, 1
		}
		for x := 0; x < bi; x++ {
			da = append(da, i+x)
		}
		for y := 0; y < bj; y++ {
			db = append(db, j+y)
		}
		i += bi
		j += bj
	}
	for ; i < len(a); i++ {
		da = append(da, i)
	}
	for ; j < len(b); j++ {
		db = append(db, j)
	}
	return
}

// vC11Attribute classifies a failure of (b) by diffing the token sequences of
// the original and of the normalized text. Returns a finding id or "".
func vC11Attribute(in, norm []byte) (string, string) {
	wa, la, _ := vRawTokens(in)
	wb, _, _ := vRawTokens(norm)
	da, db := vAlignDiff(wa, wb)
	if len(da) == 0 && len(db) == 0 {
		return "", "token sequences of original and normalized text are identical"
	}
	// KF-C11-1: every difference is a 1:1 replacement where the cleaned token of the
	// original contains "https" (born from cleaning a URL such as http://source...)
	// and re-tokenising rewrote it to "http".
	// (tightened after a seeded change hid behind the looser version: the "https" in
	// the cleaned token must be BORN by cleaning. The harness recomputes, from the
	// raw fields of the token's line, what the documented pipeline yields - rewrite
	// every literal "https" to "http", then keep the letters - and the original
	// token must equal that; a literal "https" that survived the first
	// tokenisation is not this finding.)
	// raw fields of the whole input with hyphen + line break (+ indentation) joined,
	// as the tokenizer joins them
	joined := regexp.MustCompile(`-\r?\n[ \t]*`).ReplaceAllString(strings.ToLower(string(in)), "")
	specTokens := map[string]bool{}
	for _, f := range strings.Fields(joined) {
		f = strings.TrimLeftFunc(f, func(c rune) bool { return !(unicode.IsLetter(c) || unicode.IsDigit(c) || c == '&' || c == '(') })
		f = strings.ReplaceAll(html.UnescapeString(f), "https", "http")
		var sb strings.Builder
		for _, c := range f {
			if unicode.IsLetter(c) {
				sb.WriteRune(c)
			}
		}
		specTokens[sb.String()] = true
	}
	specToken := func(line int, tok string) bool { return specTokens[tok] }
	// pair off the https-born replacements first (they may occur together with the
	// other findings in one input)
	httpsPairs := 0
	{
		usedB := map[int]bool{}
		var restA []int
		for _, ia := range da {
			o := wa[ia]
			paired := false
			if strings.Contains(o, "https") && specToken(la[ia], o) {
				want := strings.ReplaceAll(o, "https", "http")
				for _, ib := range db {
					if !usedB[ib] && wb[ib] == want {
						usedB[ib] = true
						paired = true
						httpsPairs++
						break
					}
				}
			}
			if !paired {
				restA = append(restA, ia)
			}
		}
		var restB []int
		for _, ib := range db {
			if !usedB[ib] {
				restB = append(restB, ib)
			}
		}
		if httpsPairs > 0 && len(restA) == 0 && len(restB) == 0 {
			return "KF-C11-1", fmt.Sprintf("%d token(s) such as %q lost the 's' of an \"https\" that was born by cleaning", httpsPairs, wa[da[0]])
		}
		if httpsPairs > 0 {
			da, db = restA, restB // the rest must be explained by another finding
		}
	}
	// KF-C11-2: the cleaned text of a line reads as a notice/date line, or ends in
	// a hyphen, although the raw line did not: every differing original token lies on
	// such a line (or on the line after a hyphen-ended one).
	out := strings.Split(string(norm), "\n")
	flag := map[int]bool{}
	for k, l := range out {
		ll := strings.ToLower(strings.TrimSpace(l))
		for _, re := range ignorableTexts {
			if ll != "" && re.MatchString(ll) {
				flag[k+1] = true
			}
		}
		if strings.HasSuffix(ll, "-") {
			flag[k+1] = true
			flag[k+2] = true
		}
	}
	if len(flag) > 0 && len(da) > 0 {
		all := true
		for _, i := range da {
			if !flag[la[i]] {
				all = false
			}
		}
		if all {
			return "KF-C11-2", fmt.Sprintf("%d differing token(s), all on lines whose cleaned text reads as a notice/date line or ends in a hyphen", len(da))
		}
	}
	// KF-C11-3 (the C11 face of KF-C02-1): a hyphen-ended line followed by a
	// whitespace-only line. Every differing original token lies on such a line or on
	// one of the two lines after it.
	{
		raw := strings.Split(string(in), "\n")
		near := map[int]bool{}
		for i := 0; i+1 < len(raw); i++ {
			if vEndsHyphen(raw[i]) && strings.TrimSpace(raw[i+1]) == "" {
				near[i+1], near[i+2], near[i+3] = true, true, true
			}
		}
		if len(near) > 0 && len(da) > 0 {
			all := true
			for _, i := range da {
				if !near[la[i]] {
					all = false
				}
			}
			if all {
				return "KF-C11-3", fmt.Sprintf("%d differing token(s), all next to a hyphen-ended line that is followed by a blank line", len(da))
			}
		}
	}
	first := ""
	if len(da) > 0 {
		first = fmt.Sprintf("original token %q@line%d", wa[da[0]], la[da[0]])
	}
	if len(db) > 0 {
		first += fmt.Sprintf(" normalized token %q", wb[db[0]])
	}
	return "", "unexplained token difference: " + first
}

func TestVerifC11(t *testing.T) {
	e := vStart(t, "C11")
	defer e.finish()
	docs := vCorpus(t)
	thr := 0.8
	c := vClassifier(t, thr)
	vocab := vVocab(c)

	type cdesc struct {
		gen string
		doc int
		k   int
	}
	var cases []cdesc
	rr := rand.New(rand.NewSource(e.seed*7368787 + 11))
	reps := e.pick(1, 6)
	for rep := 0; rep < reps; rep++ {
		for di := range docs {
			cases = append(cases, cdesc{"alone", di, rep}, cdesc{"planted", di, rep})
			if rep > 0 || di%2 == 0 {
				cases = append(cases, cdesc{"edited", di, rep})
			}
		}
	}
	for k, n := 0, e.pick(60, 1500); k < n; k++ {
		cases = append(cases, cdesc{"concatenated", rr.Intn(len(docs)), k})
	}
	for k := range vScenarios() {
		cases = append(cases, cdesc{"scenario", k, 0})
	}
	for k, n := 0, e.pick(120, 3000); k < n; k++ {
		cases = append(cases, cdesc{"crafted-layout", rr.Intn(len(docs)), k})
	}
	cases = append(cases, cdesc{"kf-witness", 0, 1}, cdesc{"kf-witness", 0, 2}, cdesc{"kf-witness", 0, 3}, cdesc{"kf-witness", 0, 4})

	for idx, cd := range cases {
		cd := cd
		e.run(idx, cd.gen, map[string]interface{}{"doc": cd.doc, "k": cd.k}, func(cs *vCase) {
			r := cs.rng
			d := docs[cd.doc%len(docs)]
			var text string
			switch cd.gen {
			case "alone":
				text = string(d.raw)
			case "planted":
				text = vMakeBase(r, 0, docs, cd.doc, vocab).text
			case "edited":
				text = vMakeBase(r, 1, docs, cd.doc, vocab).text
			case "concatenated":
				text = vMakeBase(r, 3, docs, cd.doc, vocab).text
			case "scenario":
				text = vMakeBase(r, 4, docs, cd.doc, vocab).text
			case "crafted-layout":
				raw := string(d.raw)
				if len(raw) > 8000 {
					raw = raw[:8000]
				}
				if r.Intn(3) == 0 {
					// URLs glued to an opening parenthesis / ampersand / quote
					url := []string{"(https://www.apache.org/licenses/LICENSE-2.0)", "(https://example.org/license)", "&https://example.com/x", "\"https://opensource.org/licenses/MIT\"", "<https://www.gnu.org/licenses/>", "(http://www.apache.org/)", "(see https://sourceforge.net/p/x)"}[r.Intn(7)]
					w := strings.Fields(raw)
					if len(w) > 10 {
						k := r.Intn(len(w) - 1)
						raw = strings.Replace(raw, w[k]+" "+w[k+1], w[k]+" "+url+" "+w[k+1], 1)
					}
				}
				lead := []string{"\n", "\n\n", "  \n", "// \n", " * \n", "Copyright 2020 Example Corp\n", "// Copyright (c) 2019 J. Random Hacker\n", "2020-01-02\n", "A. Definitions\n", "IV. Terms\n", "1. \n"}[r.Intn(11)]
				if r.Intn(3) == 0 {
					// HTML entities in either case, glued to words (escaped, possibly all-caps text)
					rep := func(old string, news []string) {
						for strings.Contains(raw, old) && r.Intn(4) != 0 {
							raw = strings.Replace(raw, old, news[r.Intn(len(news))], 1)
						}
					}
					rep("'", []string{"&apos;", "&APOS;", "&#39;", "&#x27;", "&rsquo;", "&RSQUO;"})
					rep("\"", []string{"&quot;", "&QUOT;", "&ldquo;", "&LDQUO;", "&#34;"})
					rep(" and ", []string{" &amp; ", " &AMP; ", "&nbsp;and&NBSP;"})
					if r.Intn(2) == 0 {
						raw = strings.ToUpper(raw)
					}
				}
				lines := strings.Split(raw, "\n")
				for pass, np := 0, 1+r.Intn(2); pass < np; pass++ {
					switch r.Intn(4) {
					case 0:
						lines, _, _, _, _ = vTHyphen(r, lines)
					case 1:
						lines, _ = vTWhitespace(r, lines)
					case 2:
						lines, _ = vTMarkers(r, lines, []string{"A.", "IV.", "B:", "1.", "a.", "II."})
					case 3:
						lines, _, _ = vTNotices(r, lines, vNoticeLine)
					}
				}
				if r.Intn(3) == 0 {
					// a word continued over three lines, with further words after it
					for tries := 0; tries < 3; tries++ {
						i := r.Intn(len(lines))
						if i > 0 && vEndsHyphen(lines[i-1]) || vEndsHyphen(lines[i]) || vNoticeLike.MatchString(lines[i]) {
							continue
						}
						locs := regexp.MustCompile(`[A-Za-z]{8,}`).FindAllStringIndex(lines[i], -1)
						if len(locs) == 0 {
							continue
						}
						loc := locs[r.Intn(len(locs))]
						c1 := loc[0] + 2 + r.Intn(loc[1]-loc[0]-5)
						c2 := c1 + 1 + r.Intn(loc[1]-c1-2)
						l := lines[i]
						nl := []string{l[:c1] + "-", "  " + l[c1:c2] + "-", l[c2:]}
						lines = append(lines[:i], append(nl, lines[i+1:]...)...)
						break
					}
				}
				if r.Intn(4) == 0 {
					// CR LF line endings on top (also after hyphen-split lines)
					for i := range lines {
						lines[i] = strings.TrimRight(lines[i], "\r") + "\r"
					}
				}
				text = lead + strings.Join(lines, "\n")
			case "kf-witness":
				switch cd.k {
				case 1: // KF-C11-1: cleaned URL contains "https"
					text = "zqxxqqzz zqkkvvjj\n" + vWithNL(string(vFindDoc(docs, "License/MIT/pristine.txt"))) + "see http://source.android.com/ and http://sourceforge.net/projects/x for details\nzqvvjjkk\n"
					text = strings.Replace(text, "Permission is hereby granted", "Permission (see http://source.android.com/) is hereby granted", 1)
				case 2: // KF-C11-2: colon defeats the notice regexp, cleaning removes it
					text = "zqxxqqzz zqkkvvjj\n" + strings.Replace(vWithNL(string(vFindDoc(docs, "License/MIT/pristine.txt"))), "Permission is hereby granted", "Copyright: 2020 Example\nPermission is hereby granted", 1)
				case 4: // KF-C11-3: a hyphen-ended line followed by a blank line
					text = "zqxxqqzz zqkkvvjj\n" + strings.Replace(vWithNL(string(vFindDoc(docs, "License/MIT/pristine.txt"))), "Permission is hereby granted", "Permission is hereby\n26-\n\nb. granted", 1)
				case 3: // KF-C11-2: a line ending in "3-Clause" is cleaned to "3-"
					text = "zqxxqqzz zqkkvvjj\n" + strings.Replace(vWithNL(string(vFindDoc(docs, "License/MIT/pristine.txt"))), "Permission is hereby granted", "Permission is hereby 3-Clause\ngranted", 1)
				}
			}
			in := []byte(text)
			cs.setInput(in)
			cs.params["name"] = cd.gen + ":" + d.key
			var norm []byte
			var r0, r1 []vM
			if idx%4 == 0 {
				// everything on one classifier instance, as the doc comment states it
				vWithNormClassifier(t, thr, func(nc *Classifier) {
					r0 = vLic(nc.Match(in))
					norm = nc.Normalize(in)
					r1 = vLic(nc.Match(norm))
				})
			} else {
				vWithNormClassifier(t, thr, func(nc *Classifier) { norm = nc.Normalize(in) })
				r0 = vLic(c.Match(in))
				r1 = vLic(c.Match(norm))
			}
			e.count("normalize_calls", 1)
			structural := vStructural(in, norm)
			same := vSame(r0, r1, true, 0, 0)
			if structural == "" && same {
				if len(r0) > 0 {
					cs.nontrivial(in)
				}
				return
			}
			cs.addInput("normalized", norm)
			kf, why := vC11Attribute(in, norm)
			det := fmt.Sprintf("%s: structural: %s; Match(in)=%s; Match(Normalize(in))=%s; %s", cs.params["name"], structural, vFmt(r0), vFmt(r1), why)
			if kf != "" && (structural == "" || kf == "KF-C11-2" || kf == "KF-C11-3") {
				cs.knownFinding(kf, "normalize-invariant", "%s", det)
				cs.nontrivial(in)
				return
			}
			kind := "match-of-normalized-differs"
			if structural != "" {
				kind = "normalize-lines-misaligned"
			}
			cs.violation(kind, "%s", det)
		})
	}
}

func vFindDoc(docs []vDoc, key string) []byte {
	for _, d := range docs {
		if d.key == key {
			return d.raw
		}
	}
	return nil
}
