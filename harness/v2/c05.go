//go:build verif

package classifier

import (
	"fmt"
	"math/rand"
	"strings"
	"testing"
	"unicode"
)

// C05 — presentation changes do not change what is detected.
//
// Metamorphic monitor: Match(B) vs Match(T(B)) for seeded presentation
// transformations T and compositions. Domain rule from the statement's hyphen
// exemption: a line that ends in a hyphen and the line that follows it are not
// touched, and nothing is inserted between them.

// each transformation returns the new text and, for every line of the new
// text, the 1-based line of the old text it came from (0 for inserted lines).
type vTransform struct {
	name string
	f    func(r *rand.Rand, lines []string) ([]string, []int)
}

func vIdentityMap(n int) []int {
	m := make([]int, n)
	for i := range m {
		m[i] = i + 1
	}
	return m
}

func vExempt(lines []string, i int) bool {
	return vEndsHyphen(lines[i]) || (i > 0 && vEndsHyphen(lines[i-1]))
}

func vTRecase(r *rand.Rand, lines []string) ([]string, []int) {
	out := make([]string, len(lines))
	mode := r.Intn(4)
	for i, l := range lines {
		if vExempt(lines, i) {
			out[i] = l
			continue
		}
		b := []byte(l)
		for j, c := range b {
			if c < 128 && unicode.IsLetter(rune(c)) {
				switch mode {
				case 0:
					b[j] = byte(unicode.ToUpper(rune(c)))
				case 1:
					b[j] = byte(unicode.ToLower(rune(c)))
				default:
					if r.Intn(3) == 0 {
						if unicode.IsUpper(rune(c)) {
							b[j] = byte(unicode.ToLower(rune(c)))
						} else {
							b[j] = byte(unicode.ToUpper(rune(c)))
						}
					}
				}
			}
		}
		out[i] = string(b)
	}
	return out, vIdentityMap(len(lines))
}

func vTWhitespace(r *rand.Rand, lines []string) ([]string, []int) {
	out := make([]string, len(lines))
	crlf := r.Intn(3) == 0
	for i, l := range lines {
		if vExempt(lines, i) {
			out[i] = l
			continue
		}
		f := strings.Fields(l)
		if len(f) == 0 {
			out[i] = []string{"", " ", "\t", "   "}[r.Intn(4)]
			continue
		}
		var sb strings.Builder
		sb.WriteString([]string{"", " ", "    ", "\t", "\t\t ", "        "}[r.Intn(6)])
		for j, w := range f {
			if j > 0 {
				sb.WriteString([]string{" ", "  ", "\t", " \t ", "   "}[r.Intn(5)])
			}
			sb.WriteString(w)
		}
		if crlf {
			sb.WriteString("\r")
		} else {
			sb.WriteString([]string{"", " ", "  \t", "\r"}[r.Intn(4)])
		}
		out[i] = sb.String()
	}
	return out, vIdentityMap(len(lines))
}

func vTBlank(r *rand.Rand, lines []string) ([]string, []int) {
	var out []string
	var m []int
	for i, l := range lines {
		out = append(out, l)
		m = append(m, i+1)
		if !vEndsHyphen(l) && r.Intn(4) == 0 {
			for k := 0; k < 1+r.Intn(2); k++ {
				out = append(out, []string{"", "  ", "\t", " \r"}[r.Intn(4)])
				m = append(m, 0)
			}
		}
	}
	return out, m
}

var vDecorations = []string{"// ", "# ", " * ", "; ", "-- ", "> ", "| ", "% ", "//", "#", "*", ";", "--", ">", "|", "%", " *", "> > "}

func vTDecor(r *rand.Rand, lines []string) ([]string, []int) {
	d := vDecorations[r.Intn(len(vDecorations))]
	out := make([]string, len(lines))
	for i, l := range lines {
		if i > 0 && vEndsHyphen(lines[i-1]) {
			out[i] = l
			continue
		}
		out[i] = d + l
	}
	return out, vIdentityMap(len(lines))
}

func vTTypo(r *rand.Rand, lines []string) ([]string, []int) {
	out := make([]string, len(lines))
	for i, l := range lines {
		if vExempt(lines, i) {
			out[i] = l
			continue
		}
		var sb strings.Builder
		for _, c := range l {
			switch {
			case c == '-' && r.Intn(2) == 0:
				sb.WriteString([]string{"‒", "–", "—", "‐"}[r.Intn(4)])
			case c == '"' && r.Intn(2) == 0:
				sb.WriteString([]string{"“", "”"}[r.Intn(2)])
			case c == '\'' && r.Intn(2) == 0:
				sb.WriteString([]string{"‘", "’"}[r.Intn(2)])
			default:
				sb.WriteRune(c)
			}
		}
		out[i] = sb.String()
	}
	return out, vIdentityMap(len(lines))
}

// vTDashDecor composes two of the listed changes so that they meet in one place: the
// lines are prefixed with the "--" comment decoration and then EVERY ASCII hyphen,
// those of the decoration included, becomes a typographic dash.
func vTDashDecor(r *rand.Rand, lines []string) ([]string, []int) {
	d := []string{"-- ", "--", "-- ", " -- "}[r.Intn(4)]
	dash := []string{"‒", "–", "—", "‐"}[r.Intn(4)]
	mixed := r.Intn(3) == 0
	out := make([]string, len(lines))
	for i, l := range lines {
		if i > 0 && vEndsHyphen(lines[i-1]) {
			out[i] = l
			continue
		}
		l = d + l
		if vEndsHyphen(lines[i]) {
			out[i] = l
			continue
		}
		var sb strings.Builder
		for _, c := range l {
			if c == '-' {
				if mixed {
					dash = []string{"‒", "–", "—", "‐"}[r.Intn(4)]
				}
				sb.WriteString(dash)
			} else {
				sb.WriteRune(c)
			}
		}
		out[i] = sb.String()
	}
	return out, vIdentityMap(len(lines))
}

var vC05Transforms = []vTransform{
	{"recase", vTRecase}, {"whitespace", vTWhitespace}, {"blank-lines", vTBlank}, {"decoration", vTDecor}, {"typographic", vTTypo},
	{"dash-decoration", vTDashDecor},
}

// vCompareMapped compares license results of the base text (r0) and of the
// transformed text (r1); lmap maps new lines to old lines.
func vCompareMapped(r0, r1 []vM, lmap []int) (bool, string) {
	if !vSame(r0, r1, false, 0, 0) {
		return false, "licenses/confidences/token spans differ"
	}
	for i := range r1 {
		ol := func(nl int) int {
			if nl < 1 || nl > len(lmap) {
				return -1
			}
			return lmap[nl-1]
		}
		if ol(r1[i].SL) != r0[i].SL || ol(r1[i].EL) != r0[i].EL {
			return false, "line numbers differ (after mapping inserted lines away)"
		}
	}
	return true, ""
}

// vTokDiff describes the first difference between the token sequences of two
// inputs (diagnostics for counterexamples).
func vTokDiff(a, b []byte) string {
	wa, la, _ := vRawTokens(a)
	wb, lb, _ := vRawTokens(b)
	n := vMin(len(wa), len(wb))
	for i := 0; i < n; i++ {
		if wa[i] != wb[i] {
			return fmt.Sprintf("first differing token #%d: base %q@line%d vs transformed %q@line%d", i, wa[i], la[i], wb[i], lb[i])
		}
	}
	if len(wa) != len(wb) {
		return fmt.Sprintf("token counts differ: base %d vs transformed %d", len(wa), len(wb))
	}
	return "token sequences are identical"
}

func TestVerifC05(t *testing.T) {
	e := vStart(t, "C05")
	defer e.finish()
	docs := vCorpus(t)
	thr := 0.8
	c := vClassifier(t, thr)
	vocab := vVocab(c)

	type cdesc struct {
		kind int // base kind
		doc  int
		tf   int // -1: composition
	}
	var cases []cdesc
	rr := rand.New(rand.NewSource(e.seed*6700417 + 5))
	if e.quick() {
		for di := range docs {
			for tf := range vC05Transforms {
				cases = append(cases, cdesc{(di + tf) % 2, di, tf})
			}
			cases = append(cases, cdesc{(di + 1) % 2, di, -1})
		}
		for k := 0; k < 600; k++ {
			cases = append(cases, cdesc{rr.Intn(4), rr.Intn(len(docs)), rr.Intn(len(vC05Transforms))})
		}
		for k := range vScenarios() {
			cases = append(cases, cdesc{4, k, k % len(vC05Transforms)}, cdesc{4, k, -1})
		}
	} else {
		for rep := 0; rep < 3; rep++ {
			for di := range docs {
				for tf := range vC05Transforms {
					cases = append(cases, cdesc{0, di, tf}, cdesc{1, di, tf})
				}
				cases = append(cases, cdesc{0, di, -1}, cdesc{1, di, -1}, cdesc{2, di, -1})
			}
		}
		for k := 0; k < 3000; k++ {
			cases = append(cases, cdesc{2 + rr.Intn(2), rr.Intn(len(docs)), rr.Intn(len(vC05Transforms)+1) - 1})
		}
		for k := range vScenarios() {
			for tf := -1; tf < len(vC05Transforms); tf++ {
				cases = append(cases, cdesc{4, k, tf})
			}
		}
	}

	// notice lines of every length (kind 5): a rule that looks at the byte length of a
	// line changes its mind when quotes and hyphens become multi-byte characters
	for k := 0; k < e.pick(12, 60); k++ {
		cases = append(cases, cdesc{5, rr.Intn(len(docs)), []int{4, 5, 0, 1}[k%4]})
	}

	for idx, cd := range cases {
		cd := cd
		e.run(idx, "transform", map[string]interface{}{"base": cd.kind, "doc": cd.doc, "tf": cd.tf}, func(cs *vCase) {
			r := cs.rng
			var b vBase
			if cd.kind == 5 {
				d := docs[cd.doc]
				for len(d.raw) > 4000 {
					d = docs[r.Intn(len(docs))]
				}
				var sb strings.Builder
				// the notices come first: one that is no longer recognised shifts the
				// license's token span
				// lengths 40..1200 in steps small enough that a three-fold growth of a few
				// characters crosses any fixed limit for some line
				for L := 40 + r.Intn(5); L < 1200; L += 5 {
					line := "Copyright 2020 \"Example\" Corp - all rights reserved, \"as is\" 'x'"
					for len(line) < L {
						line += " " + []string{"and", "\"co\"", "ltd", "inc", "x-y", "the"}[r.Intn(6)]
					}
					sb.WriteString(line + "\n")
				}
				sb.WriteString(vWithNL(string(d.raw)))
				sb.WriteString(vOOVBlock(r, 1))
				b = vBase{"notice-lengths:" + d.key, sb.String()}
			} else {
				b = vMakeBase(r, cd.kind, docs, cd.doc, vocab)
			}
			lines := strings.Split(b.text, "\n")
			lmap := vIdentityMap(len(lines))
			names := ""
			apply := func(tf vTransform) {
				nl, m := tf.f(r, lines)
				// compose the line maps
				nm := make([]int, len(m))
				for i, o := range m {
					if o > 0 {
						nm[i] = lmap[o-1]
					}
				}
				lines, lmap = nl, nm
				names += tf.name + "+"
			}
			if cd.tf >= 0 {
				apply(vC05Transforms[cd.tf])
			} else {
				for k, n := 0, 2+r.Intn(2); k < n; k++ {
					apply(vC05Transforms[r.Intn(len(vC05Transforms))])
				}
			}
			cs.params["applied"] = names
			cs.params["name"] = b.name
			t2 := strings.Join(lines, "\n")
			in0, in1 := []byte(b.text), []byte(t2)
			cs.setInput(in1)
			r0 := vLic(c.Match(in0))
			r1 := vLic(c.Match(in1))
			if ok, why := vCompareMapped(r0, r1, lmap); !ok {
				cs.addInput("base", in0)
				cs.violation("presentation-changes-result", "%s under %s: %s\n  base:        %s\n  transformed: %s\n  %s", b.name, names, why, vFmt(r0), vFmt(r1), vTokDiff(in0, in1))
				return
			}
			if len(r0) > 0 {
				cs.nontrivial(in1)
				e.count("pairs_with_matches", 1)
			}
		})
	}
}
