//go:build verif

package classifier

import (
	"fmt"
	"math/rand"
	"os"
	"path/filepath"
	"strings"
	"testing"
)

// C07 — detection does not depend on position or on surrounding unrelated text.
//
// Six placements of every X: alone, prefix only, suffix only, both, far (prefix
// longer than any corpus document), far' (far + 3 lines, other suffix).
// (a) all prefixed placements agree pairwise after shifting — strict;
// (b) alone == suffix-only — strict;
// (c) alone == prefixed — strict unless the signature of KF-C07-1 holds.

func vShift(a []vM, dt, dl int) []vM {
	o := make([]vM, len(a))
	for i, m := range a {
		if !strings.HasPrefix(m.Key, "Copyright/") {
			m.ST += dt
			m.ET += dt
		}
		m.SL += dl
		m.EL += dl
		o[i] = m
	}
	return o
}

func TestVerifC07(t *testing.T) {
	e := vStart(t, "C07")
	defer e.finish()
	docs := vCorpus(t)
	thr := 0.8
	c := vClassifier(t, thr)
	vocab := vVocab(c)
	q := c.q

	kinds := []string{"exact", "M5", "M15", "M20", "TH", "TT", "TWH", "TWT", "M18", "M22", "FRAG", "CC", "scenario"}
	type cdesc struct {
		kind string
		doc  int
	}
	var cases []cdesc
	rr := rand.New(rand.NewSource(e.seed*999983 + 7))
	if e.quick() {
		for di := range docs {
			cases = append(cases, cdesc{kinds[di%8], di}, cdesc{kinds[1+(di+2)%3], di}, cdesc{kinds[6+di%2], di}, cdesc{kinds[8+di%2], di}, cdesc{"M20", di}, cdesc{"FRAG", di})
		}
		for k := 0; k < 60; k++ {
			cases = append(cases, cdesc{"CC", rr.Intn(len(docs))})
		}
	} else {
		for rep := 0; rep < 3; rep++ {
			for di := range docs {
				for _, k := range kinds[:11] {
					cases = append(cases, cdesc{k, di})
				}
			}
		}
		for k := 0; k < 1500; k++ {
			cases = append(cases, cdesc{"CC", rr.Intn(len(docs))})
		}
	}
	for k := range vScenarios() {
		cases = append(cases, cdesc{"scenario", k})
	}
	cases = append(cases, cdesc{"kf-witness", 0})

	for idx, cd := range cases {
		cd := cd
		e.run(idx, cd.kind, map[string]interface{}{"doc": cd.doc}, func(cs *vCase) {
			r := cs.rng
			d := docs[cd.doc%len(docs)]
			raw := string(d.raw)
			var x string
			switch cd.kind {
			case "exact":
				x = raw
			case "M5":
				x = vMutate(r, raw, 0.05, vocab)
			case "M15":
				x = vMutate(r, raw, 0.15, vocab)
			case "M20":
				x = vMutate(r, raw, 0.20, vocab)
			case "M18":
				x = vMutate(r, raw, 0.18, vocab)
			case "M22":
				x = vMutate(r, raw, 0.22, vocab)
			case "TH":
				x = vTruncate(r, raw, true)
			case "TT":
				x = vTruncate(r, raw, false)
			case "FRAG":
				// fragments of one license: its first part, a few unrelated words, then the
				// license again from an earlier point onward (overlapping), or two far-apart
				// parts
				w := strings.Fields(raw)
				if len(w) < 30 {
					x = raw
					break
				}
				a := len(w) * (30 + r.Intn(30)) / 100
				b := len(w) * (5 + r.Intn(35)) / 100
				gap := strings.Join(strings.Fields(vOOVLine(r))[:1+r.Intn(3)], " ")
				switch r.Intn(3) {
				case 0:
					x = strings.Join(w[:a], " ") + "\n" + gap + "\n" + strings.Join(w[b:], " ")
				case 1:
					x = strings.Join(w[:a], " ") + " " + gap + " " + strings.Join(w[a+len(w)/4:], " ")
				default:
					x = strings.Join(w[b:], " ") + "\n" + gap + "\n" + strings.Join(w[:a], " ")
				}
			case "TWH", "TWT":
				// word-level truncation (also of very short documents): 5-19% of the
				// words missing at the head or at the tail
				w := strings.Fields(raw)
				k := len(w) * (5 + r.Intn(15)) / 100
				if k < 1 {
					k = 1
				}
				if k >= len(w) {
					k = len(w) - 1
				}
				if cd.kind == "TWH" {
					x = strings.Join(w[k:], " ")
				} else {
					x = strings.Join(w[:len(w)-k], " ")
				}
			case "CC":
				o := docs[r.Intn(len(docs))]
				if len(o.raw) > 12000 {
					o = d
				}
				x = vWithNL(raw) + vOOVBlock(r, 1) + vMutate(r, string(o.raw), []float64{0, 0.05}[r.Intn(2)], vocab)
			case "scenario":
				x = string(vScenarios()[cd.doc%len(vScenarios())].data)
			case "kf-witness":
				x = vC07Witness(c, docs, vocab)
				if x == "" {
					cs.inconclusive("witness file known/C07-1.txt not found")
					return
				}
			}
			x = vWithNL(x)
			if len(vTokens(c, []byte(x))) < q {
				return // below the minimum matchable number of words: outside the statement
			}
			cs.params["name"] = cd.kind + ":" + d.key
			farLines := 1100 + r.Intn(200) // >= 10 000 filler tokens would be slow to generate per case; ~7 words/line
			pre := vOOVBlock(r, 1+r.Intn(40))
			post := vOOVBlock(r, 1+r.Intn(40))
			if r.Intn(3) == 0 {
				// blocks of about half of X's length and more on both sides
				n := len(strings.Fields(x))/14 + 2
				pre, post = vOOVBlock(r, n+r.Intn(n)), vOOVBlock(r, n+r.Intn(n))
			}
			far := vOOVBlock(r, farLines)
			post2 := vOOVBlock(r, 1+r.Intn(10))
			type placement struct {
				name      string
				pre, post string
			}
			pls := []placement{
				{"alone", "", ""},
				{"suffix-only", "", post},
				{"prefix-only", pre, ""},
				{"both", pre, post},
				{"far", far, post},
				{"far'", far + vOOVBlock(r, 3), post2},
			}
			// a prefix whose byte length puts X's first multi-byte character across the
			// tokenizer's 1020-byte chunk boundary
			for o, c := range x {
				if c > 127 {
					want := ((1019-o)%1020 + 1020) % 1020 // prefix length modulo 1020
					base := vOOVBlock(r, 2)
					for len(base) > want+1020*3 {
						base = vOOVBlock(r, 1)
					}
					n := want - len(base)%1020
					if n < 0 {
						n += 1020
					}
					edge := strings.TrimSuffix(base, "\n") + strings.Repeat(" ", n) + "\n"
					pls = append(pls, placement{"chunk-edge", edge, post2})
					break
				}
			}
			res := make([][]vM, len(pls))
			norm := make([][]vM, len(pls)) // shifted back to X's own coordinates
			for i, p := range pls {
				in := []byte(p.pre + x + p.post)
				// all matches, Copyright pseudo-matches included (their token indices are 0 by
				// construction and are not shifted)
				res[i] = vAll(c.Match(in))
				dt := len(strings.Fields(p.pre))
				dl := strings.Count(p.pre, "\n")
				norm[i] = vShift(res[i], -dt, -dl)
			}
			same := func(i, j int) bool { return vSame(norm[i], norm[j], true, 0, 0) }
			report := func(kind string, i, j int) {
				cs.setInput([]byte(x))
				cs.addInput(pls[j].name, []byte(pls[j].pre+x+pls[j].post))
				cs.violation(kind, "%s: X placed %q vs %q (coordinates of X):\n  %s: %s\n  %s: %s", cs.params["name"], pls[i].name, pls[j].name, pls[i].name, vFmt(norm[i]), pls[j].name, vFmt(norm[j]))
			}
			// (a) prefixed placements agree pairwise
			for i := 2; i < len(pls); i++ {
				for j := i + 1; j < len(pls); j++ {
					if !same(i, j) {
						report("prefixed-placements-differ", i, j)
						return
					}
				}
			}
			// (b) alone == suffix-only
			if !same(0, 1) {
				report("suffix-changes-result", 0, 1)
				return
			}
			// (c) alone == prefixed
			if !same(0, 3) {
				// KF-C07-1 signature: prefixed placements mutually equal (checked above),
				// alone == suffix-only (checked above), and every match present in only
				// one of the two results has Confidence < 1 (a noisy match): the
				// negative-offset clamp onto token 0 only exists when X starts the input.
				// (tightened after a seeded change hid behind the looser version: the clamp
				// can only ADD claimed tokens to X-at-token-0, so the embedded result must be
				// a subset of the alone result; a match that exists only behind a prefix, or
				// a different span/confidence for the same document, is not this finding)
				noisyOnly := true
				inA := map[string]bool{}
				for _, m := range norm[0] {
					inA[m.String()] = true
				}
				inB := map[string]bool{}
				for _, m := range norm[3] {
					inB[m.String()] = true
				}
				for _, m := range norm[0] {
					if !inB[m.String()] && m.Conf == 1.0 {
						noisyOnly = false
					}
				}
				for _, m := range norm[3] {
					if !inA[m.String()] {
						noisyOnly = false // embedded has something alone lacks
					}
				}
				if noisyOnly && cd.kind != "exact" {
					cs.setInput([]byte(x))
					cs.knownFinding("KF-C07-1", "alone-vs-embedded", "%s: X at token 0 vs X behind filler:\n  alone:    %s\n  embedded: %s", cs.params["name"], vFmt(norm[0]), vFmt(norm[3]))
					cs.nontrivial(x)
					return
				}
				report("prefix-changes-result", 0, 3)
				return
			}
			if len(res[0]) > 0 {
				cs.nontrivial(x)
				e.count("placements_compared", int64(len(pls)))
			}
		})
	}
	_ = fmt.Sprint
}

// vC07Witness loads the committed witness of KF-C07-1 (known/C07-1.txt: a noisy
// BSD-3-Clause text that is matched at token 0 and not behind filler).
func vC07Witness(c *Classifier, docs []vDoc, vocab []string) string {
	b, err := os.ReadFile(filepath.Join(os.Getenv("VERIF_HOME"), "known", "C07-1.txt"))
	if err != nil {
		return ""
	}
	return string(b)
}
