//go:build verif

// External test package: may import both the classifier and its assets
// package (the in-package harness cannot: import cycle). It only registers
// hooks that the in-package harness calls.
package classifier_test

import (
	classifier "github.com/google/licenseclassifier/v2"
	"github.com/google/licenseclassifier/v2/assets"
)

func init() {
	classifier.VDefaultClassifier = assets.DefaultClassifier
}
