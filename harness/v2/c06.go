//go:build verif

package classifier

import (
	"fmt"
	"math/rand"
	"os"
	"path/filepath"
	"regexp"
	"sort"
	"strings"
	"testing"
	"unicode"
	"unicode/utf8"
)

// C06 — notices, list markers, hyphenation and spelling variants are ignored.

var (
	vHeaderLike = regexp.MustCompile(`^[0-9A-Za-z.()]+[.:)]$`)
	vNoticeLike = regexp.MustCompile(`(?i)copyright|^\W*\d{4}-(\d{2}|[a-z]{3})-\d{2}\W*$`)
	vSplitWord  = regexp.MustCompile(`[\p{L}]{5,}`)
	vSplitHard  = regexp.MustCompile(`[\p{L}]*[^\x00-\x7f][\p{L}]+|[\p{L}]{2,}--?[\p{L}]{2,}`)
)

var vMarkersStrict = []string{"1.", "12.", "a.", "B.", "iv.", "3.1.", "1.2.3.", "2)", "ii:", "IV.", "c:", "10)"}
var vMarkersParen = []string{"a)", "iv)", "B)", "xi)"}

// vTNotices inserts notice / date lines between lines; returns the new lines,
// the line map and the (new) line numbers of the inserted notices.
func vTNotices(r *rand.Rand, lines []string, tmpl func(*rand.Rand) string) ([]string, []int, []int) {
	var out []string
	var m, at []int
	for i, l := range lines {
		if (i == 0 || !vEndsHyphen(lines[i-1])) && r.Intn(6) == 0 {
			out = append(out, tmpl(r))
			m = append(m, 0)
			at = append(at, len(out))
		}
		out = append(out, l)
		m = append(m, i+1)
	}
	return out, m, at
}

// vTMarkers prefixes lines with list markers. Only lines whose first word is
// not itself marker-like and that are no notice lines are marked.
func vTMarkers(r *rand.Rand, lines []string, markers []string) ([]string, int) {
	out := make([]string, len(lines))
	n := 0
	for i, l := range lines {
		out[i] = l
		if i > 0 && vEndsHyphen(lines[i-1]) {
			continue
		}
		tl := strings.TrimLeftFunc(l, func(c rune) bool { return !(unicode.IsLetter(c) || unicode.IsDigit(c) || c == '&' || c == '(') })
		f := strings.Fields(tl)
		if len(f) == 0 || vHeaderLike.MatchString(f[0]) || vNoticeLike.MatchString(l) || r.Intn(3) != 0 {
			continue
		}
		out[i] = markers[r.Intn(len(markers))] + " " + l
		n++
	}
	return out, n
}

// vTHyphen splits words of >= 5 letters over two lines; the remainder of the
// line moves to the next line. Returns new lines, the line map (the second
// half's line maps to the original line) and, per split, whether the field
// following the split word is marker-like (signature of KF-C06-4).
func vTHyphen(r *rand.Rand, lines []string) ([]string, []int, int, int, map[string]bool) {
	var out []string
	var m []int
	splits, risky := 0, 0
	allowed := map[string]bool{}
	for i, l := range lines {
		if r.Intn(4) != 0 || vNoticeLike.MatchString(l) || vEndsHyphen(l) || (i > 0 && vEndsHyphen(lines[i-1])) {
			out = append(out, l)
			m = append(m, i+1)
			continue
		}
		locs := vSplitWord.FindAllStringIndex(l, -1)
		if len(locs) == 0 {
			out = append(out, l)
			m = append(m, i+1)
			continue
		}
		loc := locs[r.Intn(len(locs))]
		p := loc[0] + 2 + r.Intn(loc[1]-loc[0]-3)
		for !utf8.RuneStart(l[p]) {
			p++ // never cut inside a multi-byte letter
		}
		if hard := vSplitHard.FindAllStringIndex(l, -1); len(hard) > 0 && r.Intn(2) == 0 {
			// prefer the awkward places: directly after a non-ASCII letter, or directly
			// after an inner hyphen ("non--\nexclusive" written as "non-" + "-\n")
			h := hard[r.Intn(len(hard))]
			w := l[h[0]:h[1]]
			if i := strings.Index(w, "-"); i > 0 {
				p = h[0] + i + 1
			} else {
				for j, c := range w {
					if c > 127 && j+utf8.RuneLen(c) < len(w) {
						p = h[0] + j + utf8.RuneLen(c)
						break
					}
				}
			}
		}
		rest := l[p:]
		// The remainder of the physical line after the joined word is judged by the
		// tokenizer as a line of its own (KF-C06-4): a marker-like first field is
		// dropped, and a remainder that looks like a notice or date line is dropped
		// whole. Record which tokens may legitimately be lost to that finding.
		if f := strings.Fields(rest); len(f) >= 2 {
			// like the tokenizer, ignore what precedes the first word-start character
			f[1] = strings.TrimLeftFunc(f[1], func(c rune) bool { return !(unicode.IsLetter(c) || unicode.IsDigit(c) || c == '&' || c == '(') })
			rem := strings.ToLower(strings.Join(f[1:], " "))
			whole := false
			for _, re := range ignorableTexts {
				if re.MatchString(rem) {
					whole = true
				}
			}
			if whole {
				for _, w := range f[1:] {
					allowed[cleanupToken(1, strings.ToLower(w), true)] = true
					risky++
				}
			} else if vHeaderLike.MatchString(f[1]) {
				allowed[cleanupToken(1, strings.ToLower(f[1]), true)] = true
				risky++
			}
		}
		out = append(out, l[:p]+"-", []string{"", "   ", "\t"}[r.Intn(3)]+rest)
		m = append(m, i+1, i+1)
		splits++
	}
	return out, m, splits, risky, allowed
}

var vSpellField = regexp.MustCompile(`(^|[ \t\n])[("']*[A-Za-z]+[)"'.,;:]*($|[ \t\n])`)
var vSpellInner = regexp.MustCompile(`[A-Za-z]+`)

func vTSpelling(r *rand.Rand, s string) (string, int) {
	inv := map[string][]string{}
	var keys []string
	for k := range interchangeableWords {
		keys = append(keys, k)
	}
	sort.Strings(keys)
	for _, k := range keys {
		if strings.Contains(k, " ") || k == "https" {
			continue
		}
		v := interchangeableWords[k]
		inv[v] = append(inv[v], k)
	}
	n := 0
	// two passes because adjacent fields share their separator
	for pass := 0; pass < 2; pass++ {
		s = vSpellField.ReplaceAllStringFunc(s, func(fld string) string {
			return vSpellInner.ReplaceAllStringFunc(fld, func(w string) string {
				lw := strings.ToLower(w)
				var rep string
				if v, ok := interchangeableWords[lw]; ok && lw != "https" && r.Intn(2) == 0 {
					rep = v
				} else if ks, ok := inv[lw]; ok && r.Intn(2) == 0 {
					rep = ks[r.Intn(len(ks))]
				} else {
					return w
				}
				n++
				if w[0] >= 'A' && w[0] <= 'Z' {
					rep = strings.ToUpper(rep[:1]) + rep[1:]
				}
				return rep
			})
		})
	}
	return s, n
}

var vSchemeRe = regexp.MustCompile(`https?://`)

func vTHTTP(r *rand.Rand, s string) (string, int) {
	n := 0
	return vSchemeRe.ReplaceAllStringFunc(s, func(w string) string {
		if r.Intn(2) == 0 {
			return w
		}
		n++
		if w == "http://" {
			return "https://"
		}
		return "http://"
	}), n
}

// vOnlyInsertions reports whether b equals a with extra tokens inserted, each
// of which satisfies ok.
func vOnlyInsertions(a, b []string, ok func(string) bool) bool {
	i := 0
	for _, t := range b {
		if i < len(a) && a[i] == t {
			i++
			continue
		}
		if !ok(t) {
			return false
		}
	}
	return i == len(a)
}

func TestVerifC06(t *testing.T) {
	e := vStart(t, "C06")
	defer e.finish()
	docs := vCorpus(t)
	thr := 0.8
	c := vClassifier(t, thr)
	vocab := vVocab(c)

	tfs := []string{"notices", "markers", "markers-paren", "hyphen", "spelling", "http", "notice-yyyy"}
	type cdesc struct {
		kind, doc, tf int
	}
	var cases []cdesc
	rr := rand.New(rand.NewSource(e.seed*2147483647 + 6))
	if e.quick() {
		for di := range docs {
			for tf := range tfs {
				if tf == 6 && di%20 != 0 {
					continue
				}
				cases = append(cases, cdesc{(di + tf) % 2, di, tf})
				if tf == 3 || tf == 0 {
					cases = append(cases, cdesc{(di + tf + 1) % 2, di, tf})
				}
			}
		}
		for k := range vScenarios() {
			for tf := 0; tf < 6; tf++ {
				cases = append(cases, cdesc{4, k, tf})
			}
		}
	} else {
		for rep := 0; rep < 4; rep++ {
			for di := range docs {
				for tf := range tfs {
					if tf == 6 && di%10 != 0 {
						continue
					}
					cases = append(cases, cdesc{0, di, tf}, cdesc{1, di, tf})
				}
			}
		}
		for k := 0; k < 4000; k++ {
			cases = append(cases, cdesc{2 + rr.Intn(2), rr.Intn(len(docs)), rr.Intn(6)})
		}
		for k := range vScenarios() {
			for tf := 0; tf < 6; tf++ {
				cases = append(cases, cdesc{4, k, tf})
			}
		}
	}
	// every entry of the published interchangeable-spelling table, one by one
	cases = append(cases, cdesc{-2, 0, 0})
	// a notice as the very last line of the input, without a trailing newline
	for k := 0; k < e.pick(40, 400); k++ {
		cases = append(cases, cdesc{-3, rr.Intn(len(docs)), k})
	}
	// fixed witnesses of the open findings
	nw := len(cases)
	cases = append(cases, cdesc{-1, 0, 0}, cdesc{-1, 0, 1}, cdesc{-1, 0, 2}, cdesc{-1, 0, 3}, cdesc{-1, 0, 4})
	_ = nw

	markerLetters := map[string]bool{}
	for _, m := range vMarkersParen {
		markerLetters[strings.ToLower(strings.TrimRight(m, ")"))] = true
	}

	for idx, cd := range cases {
		cd := cd
		gen := "witness"
		if cd.kind >= 0 {
			gen = tfs[cd.tf]
		} else if cd.kind == -2 {
			gen = "spelling-table"
		} else if cd.kind == -3 {
			gen = "notice-at-eof"
		}
		e.run(idx, gen, map[string]interface{}{"base": cd.kind, "doc": cd.doc, "tf": cd.tf}, func(cs *vCase) {
			r := cs.rng
			if cd.kind == -2 {
				// each listed pair, in a sentence of its own and inside a synthetic corpus
				// document: both spellings must tokenise alike and match alike
				var keys []string
				for k := range interchangeableWords {
					keys = append(keys, k)
				}
				sort.Strings(keys)
				n := 0
				for _, k := range keys {
					v := interchangeableWords[k]
					if strings.Contains(k, " ") {
						continue // the table itself marks the multi-word entries as not implemented
					}
					for _, form := range []string{"%s", "%s,", "(%s)", "\"%s\"", "%s."} {
						a, _, _ := vRawTokens([]byte("the quick " + fmt.Sprintf(form, k) + " brown fox"))
						b, _, _ := vRawTokens([]byte("the quick " + fmt.Sprintf(form, v) + " brown fox"))
						if strings.Join(a, " ") != strings.Join(b, " ") {
							cs.violation("spelling-changes-result", "interchangeable spellings %q / %q (written %q) tokenise differently: %v vs %v", k, v, fmt.Sprintf(form, k), a, b)
							return
						}
						n++
					}
					sc := NewClassifier(0.8)
					doc := "permission is granted to " + v + " the work and to use the " + v + " in any form without restriction provided this notice is kept intact"
					sc.AddContent("License", "Spell", "license.txt", []byte(doc))
					x := vLic(sc.Match([]byte(strings.ReplaceAll(doc, v, k))))
					y := vLic(sc.Match([]byte(doc)))
					if len(y) != 1 || !vSame(x, y, true, 0, 0) {
						cs.violation("spelling-changes-result", "synthetic document with %q matched as %s, with %q as %s", v, vFmt(y), k, vFmt(x))
						return
					}
				}
				e.count("spelling_table_entries", int64(n))
				cs.nontrivial("spelling-table")
				return
			}
			if cd.kind == -3 {
				d := docs[cd.doc]
				for len(d.raw) > 12000 {
					d = docs[r.Intn(len(docs))]
				}
				body := vOOVBlock(r, 1) + vWithNL(string(d.raw)) + vOOVBlock(r, 1+r.Intn(2))
				notice := vNoticeLine(r)
				in0 := []byte(body)
				in1 := []byte(body + notice) // no trailing newline
				r0x, res1 := vLic(c.Match(in0)), c.Match(in1)
				if !vSame(r0x, vLic(res1), true, 0, 0) {
					cs.setInput(in1)
					cs.violation("notice-changes-result", "a notice appended as the last line (no trailing newline) changed the licenses: %s vs %s", vFmt(r0x), vFmt(vLic(res1)))
					return
				}
				line := strings.Count(body, "\n") + 1
				found := false
				for _, m := range vCopy(res1) {
					if m.SL == line {
						found = true
					}
				}
				if !found {
					cs.setInput(in1)
					cs.violation("notice-not-reported", "notice %q as the last line %d of the input (no trailing newline) is not reported as a Copyright match: %s", notice, line, vFmt(vCopy(res1)))
					return
				}
				cs.nontrivial(in1)
				return
			}
			if cd.kind < 0 {
				vC06Witness(cs, c, docs, cd.tf)
				return
			}
			b := vMakeBase(r, cd.kind, docs, cd.doc, vocab)
			cs.params["name"] = b.name
			in0 := []byte(b.text)
			res0 := c.Match(in0)
			r0 := vLic(res0)
			if len(r0) == 0 {
				return
			}
			lines := strings.Split(b.text, "\n")
			fail := func(kind string, in1 []byte, r1 []vM, why string) {
				cs.setInput(in1)
				cs.addInput("base", in0)
				cs.violation(kind, "%s under %s: %s\n  base:        %s\n  transformed: %s\n  %s", b.name, gen, why, vFmt(r0), vFmt(r1), vTokDiff(in0, in1))
			}
			switch gen {
			case "notices", "notice-yyyy":
				tmpl := vNoticeLine
				if gen == "notice-yyyy" {
					tmpl = func(*rand.Rand) string { return "Copyright [yyyy] [name of copyright owner]" }
				}
				nl, lmap, at := vTNotices(r, lines, tmpl)
				if len(at) == 0 {
					return
				}
				in1 := []byte(strings.Join(nl, "\n"))
				res1 := c.Match(in1)
				r1 := vLic(res1)
				if gen == "notice-yyyy" {
					// KF-C06-3: this template is never recognised ('[' cannot start a word)
					ok, _ := vCompareMapped(r0, r1, lmap)
					got := map[int]bool{}
					for _, m := range vCopy(res1) {
						got[m.SL] = true
					}
					miss := 0
					for _, l := range at {
						if !got[l] {
							miss++
						}
					}
					if !ok || miss > 0 {
						cs.setInput(in1)
						cs.knownFinding("KF-C06-3", "notice-not-recognised", "%s: %d of %d inserted 'Copyright [yyyy] ...' lines not reported; license results equal: %v", b.name, miss, len(at), ok)
					}
					cs.nontrivial(in1)
					return
				}
				if ok, why := vCompareMapped(r0, r1, lmap); !ok {
					fail("notice-changes-result", in1, r1, why)
					return
				}
				got := map[int]bool{}
				for _, m := range vCopy(res1) {
					got[m.SL] = true
				}
				for _, l := range at {
					if got[l] {
						e.count("notices_reported", 1)
						continue
					}
					inside := false
					for _, m := range r1 {
						if m.SL <= l && l <= m.EL {
							inside = true
						}
					}
					if inside {
						// KF-C06-2: dropped by the overlap filter in match()
						e.count("notices_inside_span_not_reported", 1)
						cs.setInput(in1)
						cs.knownFinding("KF-C06-2", "notice-inside-span-not-reported", "%s: inserted notice %q on line %d lies inside the line span of a reported license and is not reported as Copyright", b.name, nl[l-1], l)
						continue
					}
					fail("notice-not-reported", in1, r1, fmt.Sprintf("inserted notice %q on line %d (outside every license span) is not reported as a Copyright match; copyright matches: %s", nl[l-1], l, vFmt(vCopy(res1))))
					return
				}
				cs.nontrivial(in1)
			case "markers", "markers-paren":
				mk := vMarkersStrict
				if gen == "markers-paren" {
					mk = vMarkersParen
				}
				nl, n := vTMarkers(r, lines, mk)
				if n == 0 {
					return
				}
				in1 := []byte(strings.Join(nl, "\n"))
				r1 := vLic(c.Match(in1))
				if ok, why := vCompareMapped(r0, r1, vIdentityMap(len(nl))); !ok {
					if gen == "markers-paren" {
						// KF-C06-1 signature: the only token differences are inserted marker letters
						w0, _, _ := vRawTokens(in0)
						w1, _, _ := vRawTokens(in1)
						if vOnlyInsertions(w0, w1, func(t string) bool { return markerLetters[t] }) {
							cs.setInput(in1)
							cs.knownFinding("KF-C06-1", "paren-marker-not-stripped", "%s: %d '<letter>)' markers added tokens: %s", b.name, n, why)
							cs.nontrivial(in1)
							return
						}
					}
					fail("marker-changes-result", in1, r1, why)
					return
				}
				cs.nontrivial(in1)
			case "hyphen":
				nl, lmap, splits, risky, allowed := vTHyphen(r, lines)
				if splits == 0 {
					return
				}
				in1 := []byte(strings.Join(nl, "\n"))
				r1 := vLic(c.Match(in1))
				if ok, why := vCompareMapped(r0, r1, lmap); !ok {
					if risky > 0 {
						// KF-C06-4 signature: tokens are only lost, and only tokens of the
						// remainders recorded by the generator (marker-like first field, or a
						// remainder that reads as a notice/date line)
						w0, _, _ := vRawTokens(in0)
						w1, _, _ := vRawTokens(in1)
						lost := 0
						if vOnlyInsertions(w1, w0, func(t string) bool { lost++; return allowed[t] }) && lost <= risky {
							cs.setInput(in1)
							cs.knownFinding("KF-C06-4", "marker-after-split-word-dropped", "%s: %d split(s) followed by a marker-like field; %d token(s) lost: %s", b.name, risky, lost, why)
							cs.nontrivial(in1)
							return
						}
					}
					if kf, det := vLineGeometryOnly(in0, in1, r0, r1); kf {
						cs.setInput(in1)
						cs.addInput("base", in0)
						cs.knownFinding("KF-C06-5", "overlap-filter-line-granular", "%s: %s", b.name, det)
						cs.nontrivial(in1)
						return
					}
					fail("hyphenation-changes-result", in1, r1, why)
					return
				}
				cs.nontrivial(in1)
				e.count("hyphen_splits", int64(splits))
			case "spelling":
				s2, n := vTSpelling(r, b.text)
				if n == 0 {
					return
				}
				in1 := []byte(s2)
				r1 := vLic(c.Match(in1))
				if ok, why := vCompareMapped(r0, r1, vIdentityMap(len(lines))); !ok {
					fail("spelling-changes-result", in1, r1, why)
					return
				}
				cs.nontrivial(in1)
				e.count("spelling_swaps", int64(n))
			case "http":
				s2, n := vTHTTP(r, b.text)
				if n == 0 {
					return
				}
				in1 := []byte(s2)
				r1 := vLic(c.Match(in1))
				if ok, why := vCompareMapped(r0, r1, vIdentityMap(len(lines))); !ok {
					fail("scheme-changes-result", in1, r1, why)
					return
				}
				cs.nontrivial(in1)
				e.count("scheme_swaps", int64(n))
			}
		})
	}
}

// vC06Witness re-runs the committed witness of each open finding.
func vC06Witness(cs *vCase, c *Classifier, docs []vDoc, which int) {
	var mit string
	for _, d := range docs {
		if d.key == "License/MIT/pristine.txt" {
			mit = vWithNL(string(d.raw))
		}
	}
	base := "zqxxqqzz zqkkvvjj zqjjqqxx\n" + mit + "zqvvjjkk zqqqxxzz\n"
	r0 := vLic(c.Match([]byte(base)))
	if len(r0) == 0 {
		cs.inconclusive("witness base has no match")
		return
	}
	lines := strings.Split(base, "\n")
	if which == 4 { // KF-C06-5: committed pair of inputs (known/C06-5-*.txt)
		b0, err0 := os.ReadFile(filepath.Join(os.Getenv("VERIF_HOME"), "known", "C06-5-base.txt"))
		b1, err1 := os.ReadFile(filepath.Join(os.Getenv("VERIF_HOME"), "known", "C06-5-transformed.txt"))
		if err0 != nil || err1 != nil {
			cs.inconclusive("witness files known/C06-5-*.txt not found")
			return
		}
		x0, x1 := vLic(c.Match(b0)), vLic(c.Match(b1))
		if !vSame(x0, x1, false, 0, 0) {
			if kf, det := vLineGeometryOnly(b0, b1, x0, x1); kf {
				cs.setInput(b1)
				cs.knownFinding("KF-C06-5", "overlap-filter-line-granular", "witness: %s", det)
			} else {
				cs.setInput(b1)
				cs.violation("hyphenation-changes-result", "witness pair known/C06-5-*: results differ and the line-geometry signature does not hold: %s vs %s", vFmt(x0), vFmt(x1))
			}
		}
		cs.nontrivial("witness", which)
		return
	}
	switch which {
	case 0: // KF-C06-1: "a)" marker
		l2 := append([]string{}, lines...)
		for i := 2; i < len(l2)-2; i += 3 {
			if strings.TrimSpace(l2[i]) != "" {
				l2[i] = "a) " + l2[i]
			}
		}
		in1 := []byte(strings.Join(l2, "\n"))
		r1 := vLic(c.Match(in1))
		if ok, why := vCompareMapped(r0, r1, vIdentityMap(len(l2))); !ok {
			cs.setInput(in1)
			cs.knownFinding("KF-C06-1", "paren-marker-not-stripped", "witness: MIT with 'a)' markers: %s; base %s vs %s", why, vFmt(r0), vFmt(r1))
		}
	case 1: // KF-C06-2: notice inside the span
		k := len(lines) / 2
		l2 := append(append(append([]string{}, lines[:k]...), "Copyright (c) 2020 Example Corp"), lines[k:]...)
		in1 := []byte(strings.Join(l2, "\n"))
		res1 := c.Match(in1)
		found := false
		for _, m := range vCopy(res1) {
			if m.SL == k+1 {
				found = true
			}
		}
		if !found {
			cs.setInput(in1)
			cs.knownFinding("KF-C06-2", "notice-inside-span-not-reported", "witness: notice on line %d inside the MIT span is not reported; result %s", k+1, vFmtRes(res1))
		}
	case 2: // KF-C06-3
		l2 := append([]string{"Copyright [yyyy] [name of copyright owner]"}, lines...)
		in1 := []byte(strings.Join(l2, "\n"))
		res1 := c.Match(in1)
		if len(vCopy(res1)) == 0 {
			cs.setInput(in1)
			cs.knownFinding("KF-C06-3", "notice-not-recognised", "witness: 'Copyright [yyyy] [name of copyright owner]' on line 1 is not reported; result %s", vFmtRes(res1))
		}
	case 3: // KF-C06-4: split word followed by a marker-like field
		text := "zqxxqqzz zqkkvvjj\nThis program is free software; you can redistribute it and/or modify it under the terms of the GNU General Public License version 2. as published by the Free Software Foundation\nzqvvjjkk\n"
		t2 := strings.Replace(text, "License version 2.", "License ver-\nsion 2.", 1)
		w0, _, _ := vRawTokens([]byte(text))
		w1, _, _ := vRawTokens([]byte(t2))
		if len(w0) != len(w1) {
			cs.setInput([]byte(t2))
			cs.knownFinding("KF-C06-4", "marker-after-split-word-dropped", "witness: 'ver-\\nsion 2.' has %d tokens, unsplit %d", len(w1), len(w0))
		}
	}
	cs.nontrivial("witness", which)
}

// vLineGeometryOnly is the signature of KF-C06-5: the two inputs have identical
// token sequences (so every candidate has the same tokens and confidence), all
// matches common to both results agree in name, confidence and token span, and
// every match that is present in only one result overlaps, in tokens, a match
// present in both - i.e. only the line-based overlap filter of match() decided
// differently because a line break moved.
func vLineGeometryOnly(in0, in1 []byte, r0, r1 []vM) (bool, string) {
	w0, _, _ := vRawTokens(in0)
	w1, _, _ := vRawTokens(in1)
	if strings.Join(w0, " ") != strings.Join(w1, " ") {
		return false, ""
	}
	key := func(m vM) string { return fmt.Sprintf("%s/%x/%d-%d", m.Key, m.Bits, m.ST, m.ET) }
	in0set, in1set := map[string]vM{}, map[string]vM{}
	for _, m := range r0 {
		in0set[key(m)] = m
	}
	for _, m := range r1 {
		in1set[key(m)] = m
	}
	var common, only []vM
	for k, m := range in0set {
		if _, ok := in1set[k]; ok {
			common = append(common, m)
		} else {
			only = append(only, m)
		}
	}
	for k, m := range in1set {
		if _, ok := in0set[k]; !ok {
			only = append(only, m)
		}
	}
	if len(only) == 0 {
		return false, ""
	}
	for _, m := range only {
		ov := false
		for _, c := range common {
			if m.ST <= c.ET && c.ST <= m.ET {
				ov = true
			}
		}
		if !ov {
			return false, ""
		}
	}
	return true, fmt.Sprintf("identical token sequences; %d match(es) kept/dropped only by the line-based overlap filter, e.g. %s", len(only), only[0])
}
