//go:build verif

// Shared machinery for the runtime monitors of the v2 classifier (package
// classifier, injected with `go test -overlay`). Nothing here is compiled
// without the `verif` build tag.
package classifier

import (
	"bytes"
	"crypto/sha256"
	"encoding/base64"
	"encoding/binary"
	"encoding/json"
	"fmt"
	"hash/fnv"
	"math"
	"math/rand"
	"os"
	"path/filepath"
	"runtime/debug"
	"sort"
	"strconv"
	"strings"
	"sync"
	"testing"
	"time"
)

// ---------------------------------------------------------------------------
// environment / event log

type vEnv struct {
	prop    string
	seed    int64
	tier    string
	shard   int
	nshards int
	only    int // run only this case index (-1: all)
	from    int // skip case indices below this one
	logPath string
	scratch string

	mu       sync.Mutex
	logf     *os.File
	sigf     *os.File
	evals    int64
	nontriv  int64
	viol     int64
	inconc   int64
	kf       map[string]int64
	counters map[string]int64
	samples  int
	start    time.Time

	// worker pool: cases run in up to `workers` goroutines of this process;
	// slot i holds the case in flight on worker i (-1: idle), guarded by mu
	workers    int
	slots      chan int
	slotIdx    []int64
	slotT      []time.Time
	skip       map[int]bool
	wg         sync.WaitGroup
	everyShard bool     // every shard runs every case (cross-process oracles)
	slow       []string // the slowest cases (diagnostics)
	slowT      []float64
}

func vGetenvInt(name string, def int) int {
	if s := os.Getenv(name); s != "" {
		if n, err := strconv.Atoi(s); err == nil {
			return n
		}
	}
	return def
}

// vStart reads the VERIF_* environment; a harness test that is run without
// VERIF_LOG (e.g. by a plain `go test -tags verif ./...`) is skipped.
func vStart(t *testing.T, prop string) *vEnv {
	lp := os.Getenv("VERIF_LOG")
	if lp == "" || os.Getenv("VERIF_PROP") != prop {
		t.Skip("verif harness: not selected")
	}
	e := &vEnv{prop: prop, logPath: lp, kf: map[string]int64{}, counters: map[string]int64{}, start: time.Now()}
	e.seed = int64(vGetenvInt("VERIF_SEED", 1))
	e.tier = os.Getenv("VERIF_TIER")
	if e.tier == "" {
		e.tier = "quick"
	}
	e.shard = vGetenvInt("VERIF_SHARD", 0)
	e.nshards = vGetenvInt("VERIF_NSHARDS", 1)
	e.only = vGetenvInt("VERIF_ONLY", -1)
	e.from = vGetenvInt("VERIF_FROM", 0)
	e.scratch = os.Getenv("VERIF_SCRATCH")
	var err error
	e.logf, err = os.OpenFile(lp, os.O_APPEND|os.O_CREATE|os.O_WRONLY, 0644)
	if err != nil {
		t.Fatalf("verif: cannot open log: %v", err)
	}
	e.sigf, err = os.OpenFile(lp+".sigs", os.O_APPEND|os.O_CREATE|os.O_WRONLY, 0644)
	if err != nil {
		t.Fatalf("verif: cannot open sig file: %v", err)
	}
	e.workers = vGetenvInt("VERIF_WORKERS", 1)
	if e.workers < 1 {
		e.workers = 1
	}
	e.slots = make(chan int, e.workers)
	e.slotIdx = make([]int64, e.workers)
	e.slotT = make([]time.Time, e.workers)
	for i := 0; i < e.workers; i++ {
		e.slots <- i
		e.slotIdx[i] = -1
	}
	e.skip = map[int]bool{}
	for _, f := range strings.Split(os.Getenv("VERIF_SKIP"), ",") {
		if n, err := strconv.Atoi(strings.TrimSpace(f)); err == nil {
			e.skip[n] = true
		}
	}
	go e.watchdog(time.Duration(vGetenvInt("VERIF_CASE_TIMEOUT", 120)) * time.Second)
	e.event(map[string]interface{}{"ev": "run", "prop": prop, "seed": e.seed, "tier": e.tier, "shard": e.shard, "nshards": e.nshards, "only": e.only, "from": e.from, "pid": os.Getpid()})
	return e
}

func (e *vEnv) quick() bool { return e.tier != "thorough" }

// pick returns q in the quick tier and th in the thorough tier.
func (e *vEnv) pick(q, th int) int {
	if e.quick() {
		return q
	}
	return th
}

func (e *vEnv) event(m map[string]interface{}) {
	b, err := json.Marshal(m)
	if err != nil {
		b = []byte(fmt.Sprintf(`{"ev":"logerror","err":%q}`, err.Error()))
	}
	e.mu.Lock()
	e.logf.Write(append(b, '\n'))
	e.mu.Unlock()
}

func (e *vEnv) count(name string, n int64) {
	e.mu.Lock()
	e.counters[name] += n
	e.mu.Unlock()
}

// watchdog ends the process when one case runs longer than the budget. The
// driver re-runs that case alone with ten times the budget before calling it
// a hang.
func (e *vEnv) watchdog(budget time.Duration) {
	for {
		time.Sleep(500 * time.Millisecond)
		e.mu.Lock()
		var late []int64
		for i, idx := range e.slotIdx {
			if idx >= 0 && time.Since(e.slotT[i]) > budget {
				late = append(late, idx)
			}
		}
		e.mu.Unlock()
		if len(late) > 0 {
			e.event(map[string]interface{}{"ev": "watchdog", "late": late, "budget_s": budget.Seconds()})
			os.Exit(97)
		}
	}
}

// finish writes the per-shard statistics; the driver fails a run whose shards
// do not all end with a `done` event.
func (e *vEnv) finish() {
	e.wg.Wait()
	e.mu.Lock()
	cs := map[string]int64{}
	for k, v := range e.counters {
		cs[k] = v
	}
	kf := map[string]int64{}
	for k, v := range e.kf {
		kf[k] = v
	}
	m := map[string]interface{}{"ev": "done", "prop": e.prop, "shard": e.shard, "evaluations": e.evals, "nontrivial": e.nontriv, "violations": e.viol, "inconclusive": e.inconc, "kf": kf, "counters": cs, "wall_s": time.Since(e.start).Seconds(), "slowest": append([]string{}, e.slow...)}
	e.mu.Unlock()
	e.event(m)
	e.logf.Close()
	e.sigf.Close()
}

// ---------------------------------------------------------------------------
// cases

type vCase struct {
	e       *vEnv
	idx     int
	gen     string
	params  map[string]interface{}
	rng     *rand.Rand
	input   []byte
	inputs  map[string][]byte
	verdict string
	kind    string
	detail  string
	kfid    string
	nontriv bool
	sig     uint64
	obs     map[string]interface{}
	slot    int
	emit    bool // always log the observations of this case (ev=obs)
}

func vCaseSeed(seed int64, prop string, idx int) int64 {
	h := fnv.New64a()
	fmt.Fprintf(h, "%d/%s/%d", seed, prop, idx)
	return int64(h.Sum64() & 0x7fffffffffffffff)
}

// selected tells whether this process is responsible for case idx.
func (e *vEnv) selected(idx int) bool {
	if e.only >= 0 {
		return idx == e.only
	}
	if idx < e.from || e.skip[idx] {
		return false
	}
	return e.everyShard || idx%e.nshards == e.shard
}

// run executes one case body under recover(), after recording the case as
// in flight so that the driver can attribute a process death to it.
func (e *vEnv) run(idx int, gen string, params map[string]interface{}, body func(cs *vCase)) {
	if !e.selected(idx) {
		return
	}
	slot := <-e.slots
	cs := &vCase{e: e, idx: idx, gen: gen, params: params, rng: rand.New(rand.NewSource(vCaseSeed(e.seed, e.prop, idx))), verdict: "ok", slot: slot}
	inflight, _ := json.Marshal(map[string]interface{}{"idx": idx, "gen": gen, "params": params, "prop": e.prop, "seed": e.seed, "tier": e.tier})
	os.WriteFile(fmt.Sprintf("%s.inflight.%d", e.logPath, slot), inflight, 0644)
	e.mu.Lock()
	e.slotIdx[slot], e.slotT[slot] = int64(idx), time.Now()
	e.mu.Unlock()
	work := func() {
		func() {
			defer func() {
				if r := recover(); r != nil {
					cs.verdict = "violation"
					cs.kind = "panic"
					cs.detail = fmt.Sprintf("%v\n%s", r, vTrimStack(debug.Stack()))
					cs.kfid = ""
				}
			}()
			body(cs)
		}()
		e.mu.Lock()
		dt := time.Since(e.slotT[slot]).Seconds()
		e.slotIdx[slot] = -1
		if len(e.slowT) < 5 || dt > e.slowT[len(e.slowT)-1] {
			e.slowT = append(e.slowT, dt)
			e.slow = append(e.slow, fmt.Sprintf("%s#%d %.2fs", gen, idx, dt))
			for i := len(e.slowT) - 1; i > 0 && e.slowT[i] > e.slowT[i-1]; i-- {
				e.slowT[i], e.slowT[i-1] = e.slowT[i-1], e.slowT[i]
				e.slow[i], e.slow[i-1] = e.slow[i-1], e.slow[i]
			}
			if len(e.slowT) > 5 {
				e.slowT, e.slow = e.slowT[:5], e.slow[:5]
			}
		}
		e.mu.Unlock()
		os.Remove(fmt.Sprintf("%s.inflight.%d", e.logPath, slot))
		cs.end()
		e.slots <- slot
	}
	if e.workers == 1 {
		work()
		return
	}
	e.wg.Add(1)
	go func() {
		defer e.wg.Done()
		work()
	}()
}

func vTrimStack(b []byte) string {
	s := string(b)
	if len(s) > 3000 {
		s = s[:3000] + "..."
	}
	return s
}

// hostileInput records the bytes about to be handed to the code under test in
// a side file, so that they survive a fatal error of the process.
func (cs *vCase) hostileInput(b []byte) {
	cs.input = b
	os.WriteFile(fmt.Sprintf("%s.input.%d", cs.e.logPath, cs.slot), b, 0644)
}

func (cs *vCase) setInput(b []byte) { cs.input = b }
func (cs *vCase) addInput(name string, b []byte) {
	if cs.inputs == nil {
		cs.inputs = map[string][]byte{}
	}
	cs.inputs[name] = b
}

func (cs *vCase) violation(kind, format string, a ...interface{}) {
	if cs.verdict == "violation" {
		return // keep the first
	}
	cs.verdict = "violation"
	cs.kind = kind
	cs.detail = fmt.Sprintf(format, a...)
	cs.kfid = ""
}

// knownFinding marks the failure of this case as attributable to a listed
// finding; the driver only honours ids that are open in known_findings.json.
func (cs *vCase) knownFinding(id, kind, format string, a ...interface{}) {
	if cs.verdict == "violation" {
		return
	}
	cs.verdict = "violation"
	cs.kind = kind
	cs.detail = fmt.Sprintf(format, a...)
	cs.kfid = id
}

func (cs *vCase) inconclusive(format string, a ...interface{}) {
	if cs.verdict == "ok" {
		cs.verdict = "inconclusive"
		cs.detail = fmt.Sprintf(format, a...)
	}
}

// nontrivial marks the case as one in which the property had something to
// say; sig identifies the case for the distinct count.
func (cs *vCase) nontrivial(sig ...interface{}) {
	cs.nontriv = true
	h := fnv.New64a()
	fmt.Fprintf(h, "%s|", cs.gen)
	for _, s := range sig {
		switch v := s.(type) {
		case []byte:
			h.Write(v)
		case string:
			h.Write([]byte(v))
		default:
			fmt.Fprintf(h, "%v", v)
		}
		h.Write([]byte{0})
	}
	cs.sig = h.Sum64()
}

func (cs *vCase) observe(k string, v interface{}) {
	if cs.obs == nil {
		cs.obs = map[string]interface{}{}
	}
	cs.obs[k] = v
}

func vB64(b []byte) string {
	if len(b) > 1<<20 {
		return base64.StdEncoding.EncodeToString(b[:1<<20])
	}
	return base64.StdEncoding.EncodeToString(b)
}

func (cs *vCase) end() {
	e := cs.e
	e.mu.Lock()
	e.evals++
	if cs.nontriv {
		e.nontriv++
		var b [8]byte
		binary.LittleEndian.PutUint64(b[:], cs.sig)
		e.sigf.Write(b[:])
	}
	sample := false
	switch cs.verdict {
	case "violation":
		if cs.kfid != "" {
			e.kf[cs.kfid]++
		} else {
			e.viol++
		}
	case "inconclusive":
		e.inconc++
	default:
		if cs.nontriv && e.samples < 2 {
			e.samples++
			sample = true
		}
	}
	e.mu.Unlock()
	if cs.emit {
		e.event(map[string]interface{}{"ev": "obs", "idx": cs.idx, "gen": cs.gen, "shard": e.shard, "obs": cs.obs})
	}
	if cs.verdict == "ok" && !sample {
		return
	}
	m := map[string]interface{}{"ev": "case", "idx": cs.idx, "gen": cs.gen, "params": cs.params, "verdict": cs.verdict, "nontrivial": cs.nontriv}
	if sample {
		m["ev"] = "sample"
	}
	if cs.kind != "" {
		m["kind"] = cs.kind
	}
	if cs.detail != "" {
		m["detail"] = cs.detail
	}
	if cs.kfid != "" {
		m["kf"] = cs.kfid
	}
	if cs.obs != nil {
		m["obs"] = cs.obs
	}
	if cs.verdict != "ok" {
		if cs.input != nil {
			m["input_b64"] = vB64(cs.input)
			m["input_len"] = len(cs.input)
		}
		for k, v := range cs.inputs {
			m["input_"+k+"_b64"] = vB64(v)
		}
	} else if cs.input != nil {
		s := cs.input
		if len(s) > 240 {
			s = s[:240]
		}
		m["input_head"] = string(bytes.ToValidUTF8(s, []byte("?")))
		m["input_len"] = len(cs.input)
	}
	e.event(m)
}

// ---------------------------------------------------------------------------
// corpus access

type vDoc struct {
	key string // category/name/variant
	raw []byte
}

var (
	vCorpusOnce sync.Once
	vCorpusDocs []vDoc
)

// vCorpus reads the embedded corpus from ./assets (cwd must be the v2
// directory of the tree under test).
func vCorpus(t testing.TB) []vDoc {
	vCorpusOnce.Do(func() {
		filepath.Walk("assets", func(p string, info os.FileInfo, err error) error {
			if err != nil || info.IsDir() || !strings.HasSuffix(p, "txt") {
				return nil
			}
			rel := filepath.ToSlash(strings.TrimPrefix(p, "assets"+string(os.PathSeparator)))
			if strings.Count(rel, "/") != 2 {
				return nil
			}
			b, err := os.ReadFile(p)
			if err != nil {
				return nil
			}
			vCorpusDocs = append(vCorpusDocs, vDoc{key: rel, raw: b})
			return nil
		})
		sort.Slice(vCorpusDocs, func(i, j int) bool { return vCorpusDocs[i].key < vCorpusDocs[j].key })
	})
	if len(vCorpusDocs) < 400 {
		t.Fatalf("verif: corpus not found (cwd must be <repo>/v2): %d documents", len(vCorpusDocs))
	}
	return vCorpusDocs
}

type vClsEntry struct {
	once sync.Once
	c    *Classifier
}

var (
	vClsMu    sync.Mutex
	vClsCache = map[float64]*vClsEntry{}
)

// vClassifier returns a classifier over the embedded corpus built through the
// public API (AddContent per file, sorted order).
func vClassifier(t testing.TB, thr float64) *Classifier {
	docs := vCorpus(t)
	vClsMu.Lock()
	en, ok := vClsCache[thr]
	if !ok {
		en = &vClsEntry{}
		vClsCache[thr] = en
	}
	vClsMu.Unlock()
	en.once.Do(func() { en.c = vBuild(thr, docs) })
	return en.c
}

func vBuild(thr float64, docs []vDoc) *Classifier {
	c := NewClassifier(thr)
	for _, d := range docs {
		seg := strings.Split(d.key, "/")
		c.AddContent(seg[0], seg[1], seg[2], d.raw)
	}
	return c
}

func vKey(m *Match) string { return m.MatchType + "/" + m.Name + "/" + m.Variant }

// vDocWords returns the words of the corpus document with the given key
// (white-box), or nil if no such document exists.
func vDocWords(c *Classifier, key string) []string {
	d, ok := c.docs[filepath.FromSlash(key)]
	if !ok {
		return nil
	}
	w := make([]string, len(d.Tokens))
	for i, t := range d.Tokens {
		w[i] = c.dict.getWord(t.ID)
	}
	return w
}

func vVocab(c *Classifier) []string {
	v := make([]string, 0, len(c.dict.indices))
	for w := range c.dict.indices {
		if w != "\n" && w != "" {
			v = append(v, w)
		}
	}
	sort.Strings(v)
	return v
}

// vTok is the white-box view of one input token as Match sees it.
type vTok struct {
	W     string
	Line  int
	Known bool
}

// vTokens tokenizes exactly as match() does. Unknown words get pairwise
// distinct placeholders that equal no corpus word.
func vTokens(c *Classifier, in []byte) []vTok {
	d, err := tokenizeStream(bytes.NewReader(in), true, c.dict, false)
	if err != nil {
		panic(err)
	}
	out := make([]vTok, len(d.Tokens))
	for i, t := range d.Tokens {
		if t.ID == unknownIndex {
			out[i] = vTok{W: "\x00unk" + strconv.Itoa(i), Line: t.Line}
		} else {
			out[i] = vTok{W: c.dict.getWord(t.ID), Line: t.Line, Known: true}
		}
	}
	return out
}

// vRawTokens tokenizes with a private dictionary so that every word keeps its
// text (used to compare token sequences of two inputs, unknown words included).
func vRawTokens(in []byte) ([]string, []int, Matches) {
	d, err := tokenizeStream(bytes.NewReader(in), true, newDictionary(), true)
	if err != nil {
		panic(err)
	}
	w := make([]string, len(d.Tokens))
	l := make([]int, len(d.Tokens))
	for i, t := range d.Tokens {
		w[i] = d.dict.getWord(t.ID)
		l[i] = t.Line
	}
	return w, l, d.Matches
}

// ---------------------------------------------------------------------------
// canonical results

type vM struct {
	Key    string  `json:"k"`
	Conf   float64 `json:"c"`
	Bits   uint64  `json:"-"`
	ST, ET int
	SL, EL int
}

func (m vM) String() string {
	return fmt.Sprintf("%s %v tok[%d-%d] line[%d-%d]", m.Key, m.Conf, m.ST, m.ET, m.SL, m.EL)
}

func vConv(m *Match) vM {
	return vM{vKey(m), m.Confidence, math.Float64bits(m.Confidence), m.StartTokenIndex, m.EndTokenIndex, m.StartLine, m.EndLine}
}

// vOrdered returns all matches in the order returned.
func vOrdered(res Results) []vM {
	out := make([]vM, 0, len(res.Matches))
	for _, m := range res.Matches {
		out = append(out, vConv(m))
	}
	return out
}

func vSortMs(out []vM) {
	sort.Slice(out, func(i, j int) bool {
		a, b := out[i], out[j]
		if a.ST != b.ST {
			return a.ST < b.ST
		}
		if a.ET != b.ET {
			return a.ET < b.ET
		}
		if a.SL != b.SL {
			return a.SL < b.SL
		}
		if a.EL != b.EL {
			return a.EL < b.EL
		}
		if a.Key != b.Key {
			return a.Key < b.Key
		}
		return a.Bits < b.Bits
	})
}

// vLic returns the license (non-Copyright) matches, sorted canonically.
func vLic(res Results) []vM {
	var out []vM
	for _, m := range res.Matches {
		if m.MatchType == "Copyright" {
			continue
		}
		out = append(out, vConv(m))
	}
	vSortMs(out)
	return out
}

// vCopy returns the Copyright pseudo-matches sorted by line.
func vCopy(res Results) []vM {
	var out []vM
	for _, m := range res.Matches {
		if m.MatchType == "Copyright" {
			out = append(out, vConv(m))
		}
	}
	vSortMs(out)
	return out
}

func vAll(res Results) []vM {
	out := vOrdered(res)
	vSortMs(out)
	return out
}

// vSame compares two canonical lists; with lines=false line numbers are
// ignored; dTok/dLine are added to a before comparing.
func vSame(a, b []vM, lines bool, dTok, dLine int) bool {
	if len(a) != len(b) {
		return false
	}
	for i := range a {
		if a[i].Key != b[i].Key || a[i].Bits != b[i].Bits || a[i].ST+dTok != b[i].ST || a[i].ET+dTok != b[i].ET {
			return false
		}
		if lines && (a[i].SL+dLine != b[i].SL || a[i].EL+dLine != b[i].EL) {
			return false
		}
	}
	return true
}

func vFmt(ms []vM) string {
	var sb strings.Builder
	for i, m := range ms {
		if i > 0 {
			sb.WriteString(" | ")
		}
		sb.WriteString(m.String())
	}
	if len(ms) == 0 {
		return "(none)"
	}
	return sb.String()
}

func vFmtRes(res Results) string {
	return fmt.Sprintf("T=%d %s", res.TotalInputLines, vFmt(vOrdered(res)))
}

func vSha(b []byte) [32]byte { return sha256.Sum256(b) }

// ---------------------------------------------------------------------------
// generators

const vFillerAlphabet = "qxzjkv"

func vOOVWord(r *rand.Rand) string {
	l := 5 + r.Intn(5)
	b := make([]byte, l+2)
	b[0], b[1] = 'z', 'q'
	for j := 2; j < len(b); j++ {
		b[j] = vFillerAlphabet[r.Intn(len(vFillerAlphabet))]
	}
	return string(b)
}

func vOOVLine(r *rand.Rand) string {
	n := 3 + r.Intn(8)
	w := make([]string, n)
	for i := range w {
		w[i] = vOOVWord(r)
	}
	return strings.Join(w, " ")
}

// vOOVBlock returns `lines` lines of out-of-vocabulary filler, each terminated
// by a newline. Filler words match zq[qxzjkv]{5,9}: they are letters only, are
// no list markers, dates or notices and never end in a hyphen.
func vOOVBlock(r *rand.Rand, lines int) string {
	var sb strings.Builder
	for i := 0; i < lines; i++ {
		sb.WriteString(vOOVLine(r))
		sb.WriteByte('\n')
	}
	return sb.String()
}

// vCheckFiller asserts (white-box) that every token of a filler block is
// unknown to the classifier and that it has exactly the expected shape.
func vCheckFiller(c *Classifier, block string) error {
	toks := vTokens(c, []byte(block))
	for _, t := range toks {
		if t.Known {
			return fmt.Errorf("filler word %q is in the dictionary", t.W)
		}
	}
	want := len(strings.Fields(block))
	if len(toks) != want {
		return fmt.Errorf("filler block has %d tokens, want %d", len(toks), want)
	}
	return nil
}

func vWithNL(s string) string {
	if !strings.HasSuffix(s, "\n") {
		return s + "\n"
	}
	return s
}

// vMutate applies word-level edits at the given rate, preserving the line
// structure. Substitutes/insertions are drawn half from filler and half from
// vocab.
func vMutate(r *rand.Rand, raw string, rate float64, vocab []string) string {
	lines := strings.Split(raw, "\n")
	nw := func() string {
		if r.Intn(2) == 0 || len(vocab) == 0 {
			return vOOVWord(r)
		}
		return vocab[r.Intn(len(vocab))]
	}
	for li, line := range lines {
		f := strings.Fields(line)
		if len(f) == 0 {
			continue
		}
		out := make([]string, 0, len(f)+2)
		for _, w := range f {
			x := r.Float64()
			switch {
			case x < rate/3:
			case x < 2*rate/3:
				out = append(out, nw())
			case x < rate:
				out = append(out, w, nw())
			default:
				out = append(out, w)
			}
		}
		lines[li] = strings.Join(out, " ")
	}
	return strings.Join(lines, "\n")
}

// vTruncate keeps a head or tail fraction of the lines.
func vTruncate(r *rand.Rand, raw string, head bool) string {
	lines := strings.Split(raw, "\n")
	if len(lines) < 4 {
		return raw
	}
	keep := len(lines)/2 + r.Intn(len(lines)/2)
	if head {
		return strings.Join(lines[:keep], "\n")
	}
	return strings.Join(lines[len(lines)-keep:], "\n")
}

type vScenario struct {
	name string
	data []byte
}

var (
	vScenOnce sync.Once
	vScens    []vScenario
)

func vScenarios() []vScenario {
	vScenOnce.Do(func() {
		filepath.Walk("scenarios", func(p string, info os.FileInfo, err error) error {
			if err != nil || info.IsDir() || strings.HasSuffix(p, "md") {
				return nil
			}
			b, err := os.ReadFile(p)
			if err != nil {
				return nil
			}
			// the payload follows the EXPECTED: line
			if i := bytes.Index(b, []byte("EXPECTED:")); i >= 0 {
				if j := bytes.IndexByte(b[i:], '\n'); j >= 0 {
					b = b[i+j+1:]
				}
			}
			vScens = append(vScens, vScenario{name: filepath.Base(p), data: b})
			return nil
		})
		sort.Slice(vScens, func(i, j int) bool { return vScens[i].name < vScens[j].name })
	})
	return vScens
}

// vBase is a license-bearing input together with how it was made.
type vBase struct {
	name string
	text string
}

// vMakeBase builds the idx-th base text for the metamorphic monitors:
// kind 0 P(d), 1 M_r(d), 2 TH/TT(d), 3 CC, 4 scenario.
func vMakeBase(r *rand.Rand, kind int, docs []vDoc, di int, vocab []string) vBase {
	d := docs[di%len(docs)]
	switch kind {
	case 0:
		return vBase{"P:" + d.key, vOOVBlock(r, 1+r.Intn(3)) + vWithNL(string(d.raw)) + vOOVBlock(r, 1+r.Intn(3))}
	case 1:
		rate := []float64{0.02, 0.05, 0.10, 0.15, 0.20}[r.Intn(5)]
		return vBase{fmt.Sprintf("M%.2f:%s", rate, d.key), vOOVBlock(r, 1+r.Intn(3)) + vWithNL(vMutate(r, string(d.raw), rate, vocab)) + vOOVBlock(r, 1+r.Intn(3))}
	case 2:
		head := r.Intn(2) == 0
		return vBase{fmt.Sprintf("T%v:%s", head, d.key), vOOVBlock(r, 1+r.Intn(3)) + vWithNL(vTruncate(r, string(d.raw), head)) + vOOVBlock(r, 1+r.Intn(3))}
	case 3:
		k := 2 + r.Intn(3)
		var sb strings.Builder
		name := "CC:"
		sb.WriteString(vOOVBlock(r, 1+r.Intn(2)))
		for j := 0; j < k; j++ {
			dd := docs[(di+j*97+r.Intn(len(docs)))%len(docs)]
			if len(dd.raw) > 12000 {
				dd = docs[di%len(docs)]
			}
			name += dd.key + ","
			sb.WriteString(vWithNL(string(dd.raw)))
			sb.WriteString(vOOVBlock(r, 1+r.Intn(2)))
		}
		return vBase{name, sb.String()}
	default:
		sc := vScenarios()
		s := sc[di%len(sc)]
		return vBase{"S:" + s.name, string(s.data)}
	}
}

// ---------------------------------------------------------------------------
// reference computations

// vLev is the plain word-level Levenshtein distance.
func vLev(a, b []string) int {
	prev := make([]int, len(b)+1)
	cur := make([]int, len(b)+1)
	for j := range prev {
		prev[j] = j
	}
	for i := 1; i <= len(a); i++ {
		cur[0] = i
		for j := 1; j <= len(b); j++ {
			c := prev[j-1]
			if a[i-1] != b[j-1] {
				c++
			}
			if prev[j]+1 < c {
				c = prev[j] + 1
			}
			if cur[j-1]+1 < c {
				c = cur[j-1] + 1
			}
			cur[j] = c
		}
		prev, cur = cur, prev
	}
	return prev[len(b)]
}

// vLevAtMost reports whether lev(a,b) <= k using a band of width k (Ukkonen).
func vLevAtMost(a, b []string, k int) bool {
	n, m := len(a), len(b)
	if n-m > k || m-n > k {
		return false
	}
	if k >= n+m {
		return true
	}
	const inf = 1 << 30
	prev := make([]int, m+1)
	cur := make([]int, m+1)
	for j := 0; j <= m; j++ {
		if j <= k {
			prev[j] = j
		} else {
			prev[j] = inf
		}
	}
	for i := 1; i <= n; i++ {
		lo, hi := i-k, i+k
		if lo < 1 {
			lo = 1
		}
		if hi > m {
			hi = m
		}
		for j := 0; j <= m; j++ {
			cur[j] = inf
		}
		if i <= k {
			cur[0] = i
		}
		for j := lo; j <= hi; j++ {
			c := prev[j-1]
			if a[i-1] != b[j-1] {
				c++
			}
			if prev[j]+1 < c {
				c = prev[j] + 1
			}
			if cur[j-1]+1 < c {
				c = cur[j-1] + 1
			}
			cur[j] = c
		}
		prev, cur = cur, prev
	}
	return prev[m] <= k
}

// vQSpec is the minimum run length implied by a threshold, from the documented
// formula in exact decimal arithmetic (thousandths).
func vQSpec(thrMilli int) int {
	if thrMilli >= 1000 {
		return 10
	}
	q := thrMilli / (1000 - thrMilli)
	if q < 1 {
		q = 1
	}
	return q
}

// vCostCap is the cost model of DESIGN §0: the largest input (bytes) driven at
// a threshold. Cost explodes as the threshold falls (every document passes the
// prefilter, q shrinks to 1, range fusion is quadratic in q-gram hits; measured
// with the embedded corpus: 100 bytes take 41 s at threshold 0, 0.15 s at 0.01,
// 3 ms at 0.3), so that slowness is never mistaken for a hang. -1 = no cap.
func vCostCap(thr float64, embedded bool) int {
	if embedded {
		switch {
		case thr < 0.005:
			return 16
		case thr < 0.05:
			return 300
		case thr < 0.2:
			return 1000
		}
	}
	if thr < 0.65 {
		return 2500
	}
	return -1
}

func vCap(in []byte, n int) []byte {
	if n >= 0 && len(in) > n {
		return in[:n]
	}
	return in
}
