//go:build verif

// v2-specific machinery for the runtime monitors of the v2 classifier (package
// classifier, injected with `go test -overlay`): corpus access, white-box token
// view, canonical results, generators, reference computations. Nothing here is
// compiled without the `verif` build tag.
package classifier

import (
	"bytes"
	"crypto/sha256"
	"fmt"
	"math"
	"math/rand"
	"os"
	"path/filepath"
	"sort"
	"strconv"
	"strings"
	"sync"
	"testing"
)

// ---------------------------------------------------------------------------
// corpus access

type vDoc struct {
	key string // category/name/variant
	raw []byte
}

var (
	vCorpusOnce sync.Once
	vCorpusDocs []vDoc
)

// vCorpus reads the embedded corpus from ./assets (cwd must be the v2
// directory of the tree under test).
func vCorpus(t testing.TB) []vDoc {
	vCorpusOnce.Do(func() {
		filepath.Walk("assets", func(p string, info os.FileInfo, err error) error {
			if err != nil || info.IsDir() || !strings.HasSuffix(p, "txt") {
				return nil
			}
			rel := filepath.ToSlash(strings.TrimPrefix(p, "assets"+string(os.PathSeparator)))
			if strings.Count(rel, "/") != 2 {
				return nil
			}
			b, err := os.ReadFile(p)
			if err != nil {
				return nil
			}
			vCorpusDocs = append(vCorpusDocs, vDoc{key: rel, raw: b})
			return nil
		})
		sort.Slice(vCorpusDocs, func(i, j int) bool { return vCorpusDocs[i].key < vCorpusDocs[j].key })
	})
	if len(vCorpusDocs) < 400 {
		t.Fatalf("verif: corpus not found (cwd must be <repo>/v2): %d documents", len(vCorpusDocs))
	}
	return vCorpusDocs
}

type vClsEntry struct {
	once sync.Once
	c    *Classifier
}

var (
	vClsMu    sync.Mutex
	vClsCache = map[float64]*vClsEntry{}
)

// vClassifier returns a classifier over the embedded corpus built through the
// public API (AddContent per file, sorted order).
func vClassifier(t testing.TB, thr float64) *Classifier {
	docs := vCorpus(t)
	vClsMu.Lock()
	en, ok := vClsCache[thr]
	if !ok {
		en = &vClsEntry{}
		vClsCache[thr] = en
	}
	vClsMu.Unlock()
	en.once.Do(func() { en.c = vBuild(thr, docs) })
	return en.c
}

func vBuild(thr float64, docs []vDoc) *Classifier {
	c := NewClassifier(thr)
	for i, d := range docs {
		seg := strings.Split(d.key, "/")
		c.AddContent(seg[0], seg[1], seg[2], d.raw)
		// the classifier is already in use while its corpus grows: anything derived
		// lazily from the corpus on first use must notice later additions
		if i%97 == 5 {
			c.Match(vCap(d.raw[:vMin(len(d.raw), 400)], vCostCap(thr, true)))
		}
	}
	return c
}

// vSpice sprinkles presentation hazards into a text (multi-byte letters, typographic
// punctuation, HTML entities in either case, tabs, CR LF, invalid bytes). Only for
// monitors whose oracle does not depend on the exact words (C02, C03, C04, C10).
func vSpice(r *rand.Rand, text string, rate int) string {
	spice := []string{"—", "‐", "“", "”", "é", "漢字", "Авт", "😀", "©", "§", "·", "\t", " \r", "&amp;", "&AMP;", "&#169;", "&APOS;", "&nbsp;", "\xff", "\xe2\x80", "(https://x.y/z)", "version 97.3", "1)-a.", "2.0..", "x;y&z"}
	w := strings.Split(text, " ")
	for i := range w {
		if r.Intn(rate) == 0 {
			if r.Intn(2) == 0 {
				w[i] += spice[r.Intn(len(spice))]
			} else {
				w[i] = spice[r.Intn(len(spice))] + w[i]
			}
		}
	}
	return strings.Join(w, " ")
}

func vKey(m *Match) string { return m.MatchType + "/" + m.Name + "/" + m.Variant }

// vDocWords returns the words of the corpus document with the given key
// (white-box), or nil if no such document exists.
func vDocWords(c *Classifier, key string) []string {
	d, ok := c.docs[filepath.FromSlash(key)]
	if !ok {
		return nil
	}
	w := make([]string, len(d.Tokens))
	for i, t := range d.Tokens {
		w[i] = c.dict.getWord(t.ID)
	}
	return w
}

func vVocab(c *Classifier) []string {
	v := make([]string, 0, len(c.dict.indices))
	for w := range c.dict.indices {
		if w != "\n" && w != "" {
			v = append(v, w)
		}
	}
	sort.Strings(v)
	return v
}

// vTok is the white-box view of one input token as Match sees it.
type vTok struct {
	W     string
	Line  int
	Known bool
}

// vTokens tokenizes exactly as match() does. Unknown words get pairwise
// distinct placeholders that equal no corpus word.
func vTokens(c *Classifier, in []byte) []vTok {
	d, err := tokenizeStream(bytes.NewReader(in), true, c.dict, false)
	if err != nil {
		panic(err)
	}
	out := make([]vTok, len(d.Tokens))
	for i, t := range d.Tokens {
		if t.ID == unknownIndex {
			out[i] = vTok{W: "\x00unk" + strconv.Itoa(i), Line: t.Line}
		} else {
			out[i] = vTok{W: c.dict.getWord(t.ID), Line: t.Line, Known: true}
		}
	}
	return out
}

// vRawTokens tokenizes with a private dictionary so that every word keeps its
// text (used to compare token sequences of two inputs, unknown words included).
func vRawTokens(in []byte) ([]string, []int, Matches) {
	d, err := tokenizeStream(bytes.NewReader(in), true, newDictionary(), true)
	if err != nil {
		panic(err)
	}
	w := make([]string, len(d.Tokens))
	l := make([]int, len(d.Tokens))
	for i, t := range d.Tokens {
		w[i] = d.dict.getWord(t.ID)
		l[i] = t.Line
	}
	return w, l, d.Matches
}

// ---------------------------------------------------------------------------
// canonical results

type vM struct {
	Key    string  `json:"k"`
	Conf   float64 `json:"c"`
	Bits   uint64  `json:"-"`
	ST, ET int
	SL, EL int
}

func (m vM) String() string {
	return fmt.Sprintf("%s %v tok[%d-%d] line[%d-%d]", m.Key, m.Conf, m.ST, m.ET, m.SL, m.EL)
}

func vConv(m *Match) vM {
	return vM{vKey(m), m.Confidence, math.Float64bits(m.Confidence), m.StartTokenIndex, m.EndTokenIndex, m.StartLine, m.EndLine}
}

// vOrdered returns all matches in the order returned.
func vOrdered(res Results) []vM {
	out := make([]vM, 0, len(res.Matches))
	for _, m := range res.Matches {
		out = append(out, vConv(m))
	}
	return out
}

func vSortMs(out []vM) {
	sort.Slice(out, func(i, j int) bool {
		a, b := out[i], out[j]
		if a.ST != b.ST {
			return a.ST < b.ST
		}
		if a.ET != b.ET {
			return a.ET < b.ET
		}
		if a.SL != b.SL {
			return a.SL < b.SL
		}
		if a.EL != b.EL {
			return a.EL < b.EL
		}
		if a.Key != b.Key {
			return a.Key < b.Key
		}
		return a.Bits < b.Bits
	})
}

// vLic returns the license (non-Copyright) matches, sorted canonically.
func vLic(res Results) []vM {
	var out []vM
	for _, m := range res.Matches {
		if m.MatchType == "Copyright" {
			continue
		}
		out = append(out, vConv(m))
	}
	vSortMs(out)
	return out
}

// vCopy returns the Copyright pseudo-matches sorted by line.
func vCopy(res Results) []vM {
	var out []vM
	for _, m := range res.Matches {
		if m.MatchType == "Copyright" {
			out = append(out, vConv(m))
		}
	}
	vSortMs(out)
	return out
}

func vAll(res Results) []vM {
	out := vOrdered(res)
	vSortMs(out)
	return out
}

// vSame compares two canonical lists; with lines=false line numbers are
// ignored; dTok/dLine are added to a before comparing.
func vSame(a, b []vM, lines bool, dTok, dLine int) bool {
	if len(a) != len(b) {
		return false
	}
	for i := range a {
		if a[i].Key != b[i].Key || a[i].Bits != b[i].Bits || a[i].ST+dTok != b[i].ST || a[i].ET+dTok != b[i].ET {
			return false
		}
		if lines && (a[i].SL+dLine != b[i].SL || a[i].EL+dLine != b[i].EL) {
			return false
		}
	}
	return true
}

func vFmt(ms []vM) string {
	var sb strings.Builder
	for i, m := range ms {
		if i > 0 {
			sb.WriteString(" | ")
		}
		sb.WriteString(m.String())
	}
	if len(ms) == 0 {
		return "(none)"
	}
	return sb.String()
}

func vFmtRes(res Results) string {
	return fmt.Sprintf("T=%d %s", res.TotalInputLines, vFmt(vOrdered(res)))
}

func vSha(b []byte) [32]byte { return sha256.Sum256(b) }

// ---------------------------------------------------------------------------
// generators

const vFillerAlphabet = "qxzjkv"

func vOOVWord(r *rand.Rand) string {
	l := 5 + r.Intn(5)
	b := make([]byte, l+2)
	b[0], b[1] = 'z', 'q'
	for j := 2; j < len(b); j++ {
		b[j] = vFillerAlphabet[r.Intn(len(vFillerAlphabet))]
	}
	return string(b)
}

func vOOVLine(r *rand.Rand) string {
	n := 3 + r.Intn(8)
	w := make([]string, n)
	for i := range w {
		w[i] = vOOVWord(r)
	}
	return strings.Join(w, " ")
}

// vOOVBlock returns `lines` lines of out-of-vocabulary filler, each terminated
// by a newline. Filler words match zq[qxzjkv]{5,9}: they are letters only, are
// no list markers, dates or notices and never end in a hyphen.
func vOOVBlock(r *rand.Rand, lines int) string {
	var sb strings.Builder
	for i := 0; i < lines; i++ {
		sb.WriteString(vOOVLine(r))
		sb.WriteByte('\n')
	}
	return sb.String()
}

// vCheckFiller asserts (white-box) that every token of a filler block is
// unknown to the classifier and that it has exactly the expected shape.
func vCheckFiller(c *Classifier, block string) error {
	toks := vTokens(c, []byte(block))
	for _, t := range toks {
		if t.Known {
			return fmt.Errorf("filler word %q is in the dictionary", t.W)
		}
	}
	want := len(strings.Fields(block))
	if len(toks) != want {
		return fmt.Errorf("filler block has %d tokens, want %d", len(toks), want)
	}
	return nil
}

func vWithNL(s string) string {
	if !strings.HasSuffix(s, "\n") {
		return s + "\n"
	}
	return s
}

// vMutate applies word-level edits at the given rate, preserving the line
// structure. Substitutes/insertions are drawn half from filler and half from
// vocab.
func vMutate(r *rand.Rand, raw string, rate float64, vocab []string) string {
	lines := strings.Split(raw, "\n")
	nw := func() string {
		if r.Intn(2) == 0 || len(vocab) == 0 {
			return vOOVWord(r)
		}
		return vocab[r.Intn(len(vocab))]
	}
	for li, line := range lines {
		f := strings.Fields(line)
		if len(f) == 0 {
			continue
		}
		out := make([]string, 0, len(f)+2)
		for _, w := range f {
			x := r.Float64()
			switch {
			case x < rate/3:
			case x < 2*rate/3:
				out = append(out, nw())
			case x < rate:
				out = append(out, w, nw())
			default:
				out = append(out, w)
			}
		}
		lines[li] = strings.Join(out, " ")
	}
	return strings.Join(lines, "\n")
}

// vTruncate keeps a head or tail fraction of the lines.
func vTruncate(r *rand.Rand, raw string, head bool) string {
	lines := strings.Split(raw, "\n")
	if len(lines) < 4 {
		return raw
	}
	keep := len(lines)/2 + r.Intn(len(lines)/2)
	if head {
		return strings.Join(lines[:keep], "\n")
	}
	return strings.Join(lines[len(lines)-keep:], "\n")
}

type vScenario struct {
	name string
	data []byte
}

var (
	vScenOnce sync.Once
	vScens    []vScenario
)

func vScenarios() []vScenario {
	vScenOnce.Do(func() {
		filepath.Walk("scenarios", func(p string, info os.FileInfo, err error) error {
			if err != nil || info.IsDir() || strings.HasSuffix(p, "md") {
				return nil
			}
			b, err := os.ReadFile(p)
			if err != nil {
				return nil
			}
			// the payload follows the EXPECTED: line
			if i := bytes.Index(b, []byte("EXPECTED:")); i >= 0 {
				if j := bytes.IndexByte(b[i:], '\n'); j >= 0 {
					b = b[i+j+1:]
				}
			}
			vScens = append(vScens, vScenario{name: filepath.Base(p), data: b})
			return nil
		})
		sort.Slice(vScens, func(i, j int) bool { return vScens[i].name < vScens[j].name })
	})
	return vScens
}

// vBase is a license-bearing input together with how it was made.
type vBase struct {
	name string
	text string
}

// vMakeBase builds the idx-th base text for the metamorphic monitors:
// kind 0 P(d), 1 M_r(d), 2 TH/TT(d), 3 CC, 4 scenario.
func vMakeBase(r *rand.Rand, kind int, docs []vDoc, di int, vocab []string) vBase {
	d := docs[di%len(docs)]
	switch kind {
	case 0:
		return vBase{"P:" + d.key, vOOVBlock(r, 1+r.Intn(3)) + vWithNL(string(d.raw)) + vOOVBlock(r, 1+r.Intn(3))}
	case 1:
		rate := []float64{0.02, 0.05, 0.10, 0.15, 0.20}[r.Intn(5)]
		return vBase{fmt.Sprintf("M%.2f:%s", rate, d.key), vOOVBlock(r, 1+r.Intn(3)) + vWithNL(vMutate(r, string(d.raw), rate, vocab)) + vOOVBlock(r, 1+r.Intn(3))}
	case 2:
		head := r.Intn(2) == 0
		return vBase{fmt.Sprintf("T%v:%s", head, d.key), vOOVBlock(r, 1+r.Intn(3)) + vWithNL(vTruncate(r, string(d.raw), head)) + vOOVBlock(r, 1+r.Intn(3))}
	case 3:
		k := 2 + r.Intn(3)
		var sb strings.Builder
		name := "CC:"
		sb.WriteString(vOOVBlock(r, 1+r.Intn(2)))
		for j := 0; j < k; j++ {
			dd := docs[(di+j*97+r.Intn(len(docs)))%len(docs)]
			if len(dd.raw) > 12000 {
				dd = docs[di%len(docs)]
			}
			name += dd.key + ","
			sb.WriteString(vWithNL(string(dd.raw)))
			sb.WriteString(vOOVBlock(r, 1+r.Intn(2)))
		}
		return vBase{name, sb.String()}
	default:
		sc := vScenarios()
		s := sc[di%len(sc)]
		return vBase{"S:" + s.name, string(s.data)}
	}
}

// ---------------------------------------------------------------------------
// reference computations

// vLev is the plain word-level Levenshtein distance.
func vLev(a, b []string) int {
	prev := make([]int, len(b)+1)
	cur := make([]int, len(b)+1)
	for j := range prev {
		prev[j] = j
	}
	for i := 1; i <= len(a); i++ {
		cur[0] = i
		for j := 1; j <= len(b); j++ {
			c := prev[j-1]
			if a[i-1] != b[j-1] {
				c++
			}
			if prev[j]+1 < c {
				c = prev[j] + 1
			}
			if cur[j-1]+1 < c {
				c = cur[j-1] + 1
			}
			cur[j] = c
		}
		prev, cur = cur, prev
	}
	return prev[len(b)]
}

// vLevAtMost reports whether lev(a,b) <= k using a band of width k (Ukkonen).
func vLevAtMost(a, b []string, k int) bool {
	n, m := len(a), len(b)
	if n-m > k || m-n > k {
		return false
	}
	if k >= n+m {
		return true
	}
	const inf = 1 << 30
	prev := make([]int, m+1)
	cur := make([]int, m+1)
	for j := 0; j <= m; j++ {
		if j <= k {
			prev[j] = j
		} else {
			prev[j] = inf
		}
	}
	for i := 1; i <= n; i++ {
		lo, hi := i-k, i+k
		if lo < 1 {
			lo = 1
		}
		if hi > m {
			hi = m
		}
		for j := 0; j <= m; j++ {
			cur[j] = inf
		}
		if i <= k {
			cur[0] = i
		}
		for j := lo; j <= hi; j++ {
			c := prev[j-1]
			if a[i-1] != b[j-1] {
				c++
			}
			if prev[j]+1 < c {
				c = prev[j] + 1
			}
			if cur[j-1]+1 < c {
				c = cur[j-1] + 1
			}
			cur[j] = c
		}
		prev, cur = cur, prev
	}
	return prev[m] <= k
}

// vQSpec is the minimum run length implied by a threshold, from the documented
// formula in exact decimal arithmetic (thousandths).
func vQSpec(thrMilli int) int {
	if thrMilli >= 1000 {
		return 10
	}
	q := thrMilli / (1000 - thrMilli)
	if q < 1 {
		q = 1
	}
	return q
}

// vCostCap is the cost model of DESIGN §0: the largest input (bytes) driven at
// a threshold. Cost explodes as the threshold falls (every document passes the
// prefilter, q shrinks to 1, range fusion is quadratic in q-gram hits; measured
// with the embedded corpus: 100 bytes take 41 s at threshold 0, 0.15 s at 0.01,
// 3 ms at 0.3), so that slowness is never mistaken for a hang. -1 = no cap.
func vCostCap(thr float64, embedded bool) int {
	if embedded {
		switch {
		case thr < 0.005:
			return 16
		case thr < 0.05:
			return 300
		case thr < 0.2:
			return 1000
		}
	} else {
		// small corpora: measured 449 s for ONE Match of a 2 500-byte license text
		// against itself at threshold 0 (q = 1: every token occurrence is a candidate
		// that is diffed against the whole document)
		switch {
		case thr < 0.005:
			return 200
		case thr < 0.05:
			return 600
		case thr < 0.2:
			return 1500
		}
	}
	if thr < 0.65 {
		return 2500
	}
	if thr < 0.8 {
		// q <= 3: a megabyte of words drawn from a small vocabulary produces hundreds of
		// thousands of q-gram hits and range fusion is quadratic in them (observed: more
		// than 3 000 s for a 1 MiB line at threshold 2/3 against a 6-document corpus)
		return 20000
	}
	return -1
}

func vCap(in []byte, n int) []byte {
	if n >= 0 && len(in) > n {
		return in[:n]
	}
	return in
}
