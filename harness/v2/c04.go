//go:build verif

package classifier

import (
	"bytes"
	"fmt"
	"io"
	"math/rand"
	"os"
	"strings"
	"testing"
)

// C04 — Match is a deterministic, side-effect-free function of corpus and input.
//
// Every child process is one *configuration* (corpus insertion order, extra
// unrelated documents, tracing) and answers the same seeded query list; it logs
// the result of every query in returned order with the confidence bits. The
// driver's judge demands one distinct value per query across all processes.
// In-process: every query is issued three times with other calls in between
// and must return the same value each time; argument byte slices are hashed
// before and after every API call.

func vCanonOrdered(res Results) string {
	var sb strings.Builder
	fmt.Fprintf(&sb, "T=%d", res.TotalInputLines)
	for _, m := range res.Matches {
		fmt.Fprintf(&sb, "|%s/%s/%s %016x %d-%d %d-%d", m.MatchType, m.Name, m.Variant, vConv(m).Bits, m.StartTokenIndex, m.EndTokenIndex, m.StartLine, m.EndLine)
	}
	return sb.String()
}

type vC04Config struct {
	name      string
	order     string // walk | sorted | reversed | shuffle
	unrelated bool
	trace     string // "" | discard | stdout
}

var vC04Configs = []vC04Config{
	{"walk/plain", "walk", false, ""},
	{"sorted/plain", "sorted", false, ""},
	{"reversed/plain", "reversed", false, ""},
	{"shuffle/plain", "shuffle", false, ""},
	{"sorted/+unrelated", "sorted", true, ""},
	{"shuffle/+unrelated-interleaved", "shuffle", true, ""},
	{"sorted/trace-discard", "sorted", false, "discard"},
	{"reversed/trace-stdout", "reversed", false, "stdout"},
	{"assets.DefaultClassifier/second-instance", "default", false, ""},
}

// vUnrelatedDocs: documents over a vocabulary (yy[bdfgmp]{5,9}) that is disjoint
// from the corpus, from the query filler and from every query.
func vUnrelatedDocs(r *rand.Rand, n int) []vDoc {
	word := func() string {
		l := 5 + r.Intn(5)
		b := []byte("yy")
		for i := 0; i < l; i++ {
			b = append(b, "bdfgmp"[r.Intn(6)])
		}
		return string(b)
	}
	var out []vDoc
	for i := 0; i < n; i++ {
		var sb strings.Builder
		nw := 20 + r.Intn(400)
		for j := 0; j < nw; j++ {
			sb.WriteString(word())
			if j%9 == 8 {
				sb.WriteByte('\n')
			} else {
				sb.WriteByte(' ')
			}
		}
		out = append(out, vDoc{key: fmt.Sprintf("License/Unrelated%d/license.txt", i), raw: []byte(sb.String())})
	}
	return out
}

func vBuildConfig(t testing.TB, cfg vC04Config, thr float64, seed int64) *Classifier {
	docs := append([]vDoc{}, vCorpus(t)...)
	r := rand.New(rand.NewSource(seed*31 + 17))
	c := NewClassifier(thr)
	if cfg.order == "default" {
		// the classifier the CLI uses: obtained AFTER another instance was created and
		// extended (every instance must stand on its own)
		if VDefaultClassifier == nil {
			t.Fatalf("assets.DefaultClassifier hook not registered")
		}
		other, err := VDefaultClassifier()
		if err != nil {
			t.Fatalf("DefaultClassifier: %v", err)
		}
		for _, d := range docs[:40] {
			other.AddContent("License", "Twin-"+strings.ReplaceAll(d.key, "/", "_"), "twin.txt", d.raw)
		}
		other.Normalize([]byte("zqsome zqnew zqwords brandnewdictionaryentry"))
		dc, err := VDefaultClassifier()
		if err != nil {
			t.Fatalf("DefaultClassifier: %v", err)
		}
		return dc
	}
	if cfg.order == "walk" {
		if err := c.LoadLicenses("assets"); err != nil {
			t.Fatalf("LoadLicenses: %v", err)
		}
		return c
	}
	if cfg.unrelated {
		un := vUnrelatedDocs(r, 200)
		if cfg.order == "shuffle" {
			docs = append(docs, un...)
		} else {
			docs = append(un, docs...) // unrelated first: every corpus word gets another id
		}
	}
	switch cfg.order {
	case "reversed":
		for i, j := 0, len(docs)-1; i < j; i, j = i+1, j-1 {
			docs[i], docs[j] = docs[j], docs[i]
		}
	case "shuffle":
		r.Shuffle(len(docs), func(i, j int) { docs[i], docs[j] = docs[j], docs[i] })
	}
	for _, d := range docs {
		seg := strings.Split(d.key, "/")
		content := append([]byte{}, d.raw...)
		sha := vSha(content)
		c.AddContent(seg[0], seg[1], seg[2], content)
		if vSha(content) != sha {
			t.Fatalf("AddContent modified its argument for %s", d.key)
		}
	}
	switch cfg.trace {
	case "discard":
		c.SetTraceConfiguration(&TraceConfiguration{TracePhases: "*", TraceLicenses: "*", Tracer: func(string, ...interface{}) {}})
	case "stdout":
		// nil Tracer prints with fmt.Printf: send the process' stdout to /dev/null
		if f, err := os.OpenFile(os.DevNull, os.O_WRONLY, 0); err == nil {
			os.Stdout = f
		}
		c.SetTraceConfiguration(&TraceConfiguration{TracePhases: "tokenize,score,frequency", TraceLicenses: "License/MIT*,Header/*"})
	}
	return c
}

// vC04Queries is the shared query list: a pure function of (seed, tier).
func vC04Queries(e *vEnv, docs []vDoc, vocab []string) []vBase {
	r := rand.New(rand.NewSource(e.seed*2654435761 + 4))
	var qs []vBase
	// tie-prone inputs first
	find := func(key string) string {
		for _, d := range docs {
			if d.key == key {
				return string(d.raw)
			}
		}
		return ""
	}
	if w := find("License/WTFPL/license.txt"); w != "" {
		qs = append(qs, vBase{"tie:WTFPL", "zqxxqqzz zqkkvvjj\n" + vWithNL(w) + "zqjjzzxx zqvvkkqq\n"})
	}
	qs = append(qs, vBase{"tie:copyrights", "Copyright 2001 A\nCopyright 2002 B\nzqxxqqzz\nCopyright (c) 2003 C\n" + vWithNL(find("License/MIT/pristine.txt")) + "Copyright 2004 D\n// Copyright 2005 E\n"})
	mit := vWithNL(find("License/MIT/pristine.txt"))
	qs = append(qs, vBase{"tie:twice", mit + "zqxxqqzz zqkkvvjj\n" + mit + "zqxxqqzz zqkkvvjj\n" + mit})
	nd := e.pick(220, len(docs))
	perm := r.Perm(len(docs))
	for k := 0; k < nd; k++ {
		di := perm[k%len(perm)]
		qs = append(qs, vMakeBase(r, 0, docs, di, vocab), vMakeBase(r, 1, docs, di, vocab))
		if k%4 == 0 {
			b := vMakeBase(r, 1, docs, di, vocab)
			qs = append(qs, vBase{"spiced:" + b.name, vSpice(r, b.text, 15)})
		}
	}
	for k := 0; k < e.pick(30, 200); k++ {
		qs = append(qs, vMakeBase(r, 3, docs, r.Intn(len(docs)), vocab))
	}
	for k := range vScenarios() {
		qs = append(qs, vMakeBase(r, 4, docs, k, vocab))
	}
	// inputs that end in the middle of a UTF-8 sequence, or in invalid bytes: whatever
	// the tokenizer's buffers held before must not leak into how the tail is decoded
	tails := []string{"\xc3", "\xe2\x80", "\xf0\x9f\x98", "\xe2", "\xf0", "\xc3\n", " x\xc3", "\xff", "é", "漢"}
	for k := 0; k < e.pick(120, 600); k++ {
		d := docs[r.Intn(len(docs))]
		// mostly inputs that fit one read buffer (1020 bytes): only there can bytes left
		// behind by an EARLIER call follow the tail; longer ones for the other chunks
		limit := 900
		if k%4 == 3 {
			limit = 8000
		}
		if len(d.raw) > limit {
			continue
		}
		pad := strings.Repeat(" ", r.Intn(7))
		pre := ""
		if len(d.raw) < 800 && r.Intn(2) == 0 {
			pre = vOOVLine(r) + "\n"
		}
		qs = append(qs, vBase{"dangling-tail:" + d.key, pre + pad + strings.TrimRight(string(d.raw), " \n\r\t") + tails[k%len(tails)]})
	}
	// inputs that sit on the scorer's special rules (scoring.go: phrases that may not
	// be introduced, lesser/library, version numbers): a license text with exactly
	// that word removed or exchanged.  The answer may be a match or none - it must be
	// the same answer every time.
	qs = append(qs, vRuleQueries(e, docs)...)
	// duplicates under two names planted together with notices: more ties
	for k := 0; k < e.pick(20, 120); k++ {
		d := docs[r.Intn(len(docs))]
		if len(d.raw) > 6000 {
			continue
		}
		qs = append(qs, vBase{"tie:dup+notice:" + d.key, vInsertNotices(r, vWithNL(string(d.raw))+vOOVBlock(r, 1)+vWithNL(string(d.raw)), 3)})
	}
	return qs
}

// vRulePhrases: (license-name prefix, phrase) pairs the scorer treats specially.
var vRulePhrases = [][2]string{
	{"AGPL", "affero"}, {"Atmel", "atmel"}, {"Apache", "apache"}, {"BSD", "bsd"},
	{"BSD-3-Clause-Attribution", "acknowledgment"}, {"bzip2", "seward"},
	{"GPL-2.0-with-GCC-exception", "gcc linking exception"}, {"GPL-2.0-with-autoconf-exception", "autoconf exception"},
	{"GPL-2.0-with-bison-exception", "bison exception"}, {"GPL-2.0-with-classpath-exception", "class path exception"},
	{"GPL-2.0-with-font-exception", "font exception"}, {"LGPL-2.0", "library"}, {"ImageMagick", "imagemagick"},
	{"PHP", "php"}, {"SISSL", "sun standards"}, {"SGI-B", "silicon graphics"}, {"SunPro", "sunpro"}, {"X11", "x consortium"},
}

// vReplaceFold replaces every case-insensitive occurrence of old (ASCII) in s.
func vReplaceFold(s, old, new string) (string, int) {
	low := strings.ToLower(s)
	if len(low) != len(s) {
		return s, 0
	}
	var b strings.Builder
	n, i := 0, 0
	for {
		j := strings.Index(low[i:], old)
		if j < 0 {
			break
		}
		b.WriteString(s[i : i+j])
		b.WriteString(new)
		i += j + len(old)
		n++
	}
	b.WriteString(s[i:])
	return b.String(), n
}

func vRuleQueries(e *vEnv, docs []vDoc) []vBase {
	var qs []vBase
	perFamily := e.pick(3, 12)
	limit := e.pick(6000, 40000)
	name := func(key string) string {
		f := strings.Split(key, "/")
		if len(f) >= 2 {
			return f[1]
		}
		return key
	}
	for _, pp := range vRulePhrases {
		n := 0
		for _, d := range docs {
			if n >= perFamily {
				break
			}
			if !strings.HasPrefix(name(d.key), pp[0]) || len(d.raw) > limit {
				continue
			}
			// the phrase removed, and the phrase replaced by a foreign word
			for v, repl := range []string{"", "zqwwvvkk"} {
				t, k := vReplaceFold(string(d.raw), pp[1], repl)
				if k == 0 {
					continue
				}
				qs = append(qs, vBase{fmt.Sprintf("rule:phrase-%d:%s:%s", v, pp[1], d.key), t})
				n++
			}
		}
	}
	swaps := [][3]string{{"LGPL", "lesser", "library"}, {"LGPL", "library", "lesser"}, {"LGPL", "lesser", ""}, {"GPL", "general public", "lesser general public"},
		{"", "version 2", "version 3"}, {"", "version 3", "version 2"}, {"", "version 1.1", "version 2.0"}, {"", "version 2.0", "version 1.0"}}
	for _, sw := range swaps {
		n := 0
		for _, d := range docs {
			if n >= perFamily {
				break
			}
			if !strings.Contains(name(d.key), sw[0]) || len(d.raw) > limit {
				continue
			}
			t, k := vReplaceFold(string(d.raw), sw[1], sw[2])
			if k == 0 {
				continue
			}
			qs = append(qs, vBase{fmt.Sprintf("rule:swap:%s>%s:%s", sw[1], sw[2], d.key), t})
			n++
		}
	}
	return qs
}

// vHistoryQueries: inputs whose answers a cache keyed too coarsely, or a shortcut
// taken too early, would mix up.  (1) a document exactly as it is in the corpus, for
// every group of documents that normalise to the same text under different names
// (all twins must be reported, every time); (2) revisions of one text with the same
// number of words at the same place: the document, then the document with a few
// words exchanged.  Together with the differing walk orders of the processes a
// result remembered from an earlier call shows as a difference between processes.
func vHistoryQueries(e *vEnv, docs []vDoc, norm func([]byte) string) []vBase {
	r := rand.New(rand.NewSource(e.seed*104729 + 44))
	var qs []vBase
	groups := map[string][]int{}
	var keys []string
	for i, d := range docs {
		if len(d.raw) > 20000 {
			continue
		}
		n := norm(d.raw)
		if len(groups[n]) == 0 {
			keys = append(keys, n)
		}
		groups[n] = append(groups[n], i)
	}
	ng := 0
	for _, k := range keys {
		g := groups[k]
		if len(g) < 2 || ng >= e.pick(25, 400) {
			continue
		}
		ng++
		for _, di := range g {
			qs = append(qs, vBase{"exact-twin:" + docs[di].key, string(docs[di].raw)})
		}
	}
	// texts in which NUL bytes (and other control characters) separate words
	for k := 0; k < e.pick(12, 80); k++ {
		d := docs[r.Intn(len(docs))]
		if len(d.raw) > 5000 {
			continue
		}
		b := append([]byte{}, d.raw...)
		for i := range b {
			if b[i] == ' ' && r.Intn(6) == 0 {
				b[i] = []byte{0, 0, 0x0b, 0x1f, 0x7f}[r.Intn(5)]
			}
		}
		qs = append(qs, vBase{"control-chars:" + d.key, string(b)})
	}
	perm := r.Perm(len(docs))
	np := 0
	for _, di := range perm {
		d := docs[di]
		if np >= e.pick(40, 300) {
			break
		}
		if len(d.raw) > 5000 || len(d.raw) < 300 {
			continue
		}
		np++
		w := strings.Fields(string(d.raw))
		qs = append(qs, vBase{"rev:0:" + d.key, strings.Join(w, " ")})
		for v := 1; v <= 2; v++ {
			x := append([]string{}, w...)
			for k := 0; k < v; k++ {
				x[len(x)/4+r.Intn(len(x)/2)] = []string{"zqrevision", "software", "banana"}[r.Intn(3)]
			}
			qs = append(qs, vBase{fmt.Sprintf("rev:%d:%s", v, d.key), strings.Join(x, " ")})
		}
	}
	return qs
}

func TestVerifC04(t *testing.T) {
	e := vStart(t, "C04")
	defer e.finish()
	e.everyShard = true
	docs := vCorpus(t)
	cfg := vC04Configs[e.shard%len(vC04Configs)]
	thr := 0.8
	c := vBuildConfig(t, cfg, thr, e.seed)
	// the query list must not depend on the configuration: take the vocabulary
	// from a reference classifier built in sorted order
	refc := vBuild(thr, docs)
	vocab := vVocab(refc)
	qs := vC04Queries(e, docs, vocab)
	qs = append(qs, vHistoryQueries(e, docs, func(b []byte) string {
		w, _, _ := vRawTokens(b)
		return strings.Join(w, " ")
	})...)
	e.event(map[string]interface{}{"ev": "config", "shard": e.shard, "config": cfg.name, "queries": len(qs), "docs": len(c.docs), "dict": len(c.dict.words)})

	call := func(cs *vCase, in []byte, how int) (Results, bool) {
		// the caller's array is larger than the slice handed in: bytes beyond len()
		// belong to the caller too (e.g. buf[:n], a member of an archive)
		backing := make([]byte, len(in)+64)
		copy(backing, in)
		for i := len(in); i < len(backing); i++ {
			backing[i] = byte('P' + i%7)
		}
		buf := backing[:len(in)]
		sha := vSha(backing)
		var res Results
		switch how % 3 {
		case 0, 1:
			res = c.Match(buf)
		default:
			var err error
			res, err = c.MatchFrom(bytes.NewReader(buf))
			if err != nil {
				cs.violation("matchfrom-error", "%v", err)
				return res, false
			}
		}
		if vSha(backing) != sha {
			cs.violation("input-modified", "Match/MatchFrom modified the caller's byte array (the slice or the bytes following it within its capacity)")
			return res, false
		}
		return res, true
	}

	// the answer must not depend on what the classifier was asked before: the
	// processes walk the same list forwards, backwards, or in a shuffled order (the
	// case index - which the judge groups by - stays that of the list)
	order := make([]int, len(qs))
	for i := range order {
		order[i] = i
	}
	switch e.shard % 3 {
	case 1:
		for i, j := 0, len(order)-1; i < j; i, j = i+1, j-1 {
			order[i], order[j] = order[j], order[i]
		}
	case 2:
		rand.New(rand.NewSource(e.seed*7919+int64(e.shard))).Shuffle(len(order), func(i, j int) { order[i], order[j] = order[j], order[i] })
	}
	e.event(map[string]interface{}{"ev": "history", "shard": e.shard, "order": []string{"forwards", "backwards", "shuffled"}[e.shard%3]})
	for _, idx := range order {
		idx, q := idx, qs[idx]
		e.run(idx, "query:"+strings.SplitN(q.name, ":", 2)[0], map[string]interface{}{"name": q.name, "config": cfg.name}, func(cs *vCase) {
			r := cs.rng
			in := []byte(q.text)
			cs.setInput(in)
			r1, ok := call(cs, in, 0)
			if !ok {
				return
			}
			first := vCanonOrdered(r1)
			// Normalize of the SAME bytes between the Match calls (the natural use: match,
			// then normalize for display), and its result must be stable: what Normalize
			// returned must not change when later calls are made
			narg := append([]byte{}, in...)
			n1 := c.Normalize(narg)
			if !bytes.Equal(narg, in) {
				cs.violation("input-modified", "Normalize modified the caller's byte slice")
				return
			}
			n1sha := vSha(n1)
			n1copy := append([]byte{}, n1...)
			// a seeded schedule of other calls on the same classifier
			for j, n := 0, 1+r.Intn(3); j < n; j++ {
				o := qs[r.Intn(len(qs))]
				ob := []byte(o.text)
				if len(ob) > 20000 {
					ob = ob[:20000]
				}
				sha := vSha(ob)
				switch r.Intn(4) {
				case 0:
					c.Match(ob)
				case 1:
					c.MatchFrom(io.LimitReader(bytes.NewReader(ob), int64(1+r.Intn(len(ob)))))
				case 2:
					c.Normalize(ob)
				default:
					c.Normalize([]byte(vOOVBlock(r, 2) + "brandnewword" + vOOVWord(r) + " " + o.text[:vMin(len(o.text), 500)]))
				}
				if vSha(ob) != sha {
					cs.violation("input-modified", "an API call modified the caller's byte slice")
					return
				}
			}
			flood := func() {
				if strings.HasPrefix(q.name, "dangling-tail") || r.Intn(10) == 0 {
					// the LAST thing before the repeated call: fill whatever buffers the
					// implementation keeps with multi-byte sequences
					f := strings.Repeat([]string{"é", "漢", "😀", "é漢"}[r.Intn(4)], 600+r.Intn(900))
					if r.Intn(2) == 0 {
						c.Match([]byte(f))
					} else {
						c.MatchFrom(strings.NewReader(f))
					}
				}
			}
			if vSha(n1) != n1sha {
				cs.violation("normalize-result-changed", "the slice returned by Normalize changed while other calls were made (it aliases internal state)")
				return
			}
			if n2 := c.Normalize(append([]byte{}, in...)); !bytes.Equal(n2, n1copy) {
				cs.violation("normalize-not-deterministic", "Normalize of the same bytes returned different text after other calls (lengths %d vs %d)", len(n1copy), len(n2))
				return
			}
			flood()
			r2, ok := call(cs, in, 2)
			if !ok {
				return
			}
			if s := vCanonOrdered(r2); s != first {
				cs.violation("repeat-differs", "same bytes, same classifier (%s), second call after other calls differs:\n first:  %s\n second: %s", cfg.name, first, s)
				return
			}
			if strings.HasPrefix(q.name, "dangling-tail") || strings.HasPrefix(q.name, "rule:") {
				// several more rounds: which recycled buffer a call gets is not under the
				// harness' control
				for k := 0; k < 6; k++ {
					flood()
					rk, ok := call(cs, in, k)
					if !ok {
						return
					}
					if s := vCanonOrdered(rk); s != first {
						cs.violation("repeat-differs", "same bytes, same classifier (%s), call %d after matching multi-byte text differs:\n first: %s\n now:   %s", cfg.name, k+3, first, s)
						return
					}
				}
			}
			// what the first call returned must still read the same (results must not
			// alias state that later calls rewrite)
			if s := vCanonOrdered(r1); s != first {
				cs.violation("earlier-result-changed", "the Results returned by the first call changed while later calls were made:\n then: %s\n now:  %s", first, s)
				return
			}
			flood()
			r3, _ := call(cs, in, 1)
			if s := vCanonOrdered(r3); s != first {
				cs.violation("repeat-differs", "third call differs:\n first: %s\n third: %s", first, s)
				return
			}
			cs.observe("res", first)
			cs.observe("q", q.name)
			cs.emit = true
			if len(r1.Matches) > 0 {
				cs.nontrivial(q.name, in)
			}
			if len(r1.Matches) > 1 {
				e.count("queries_with_several_matches", 1)
			}
		})
	}
}
