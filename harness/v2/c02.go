//go:build verif

package classifier

import (
	"bytes"
	"fmt"
	"math"
	"math/rand"
	"strings"
	"testing"
)

// C02 — confidence never overstates the similarity of the reported span.
//
// For every non-Copyright match: R = input words [StartTok..EndTok] (white-box
// token view of the *input*, unknown words pairwise distinct), K = words of the
// corpus document named by the match. Claim: L(R,K) <= (1-Confidence)*|K|,
// decided by a banded DP; Confidence == 1 only if R == K; StartLine/EndLine are
// the lines of R's first/last word (token view; and, for generator-built
// layouts, the physical line known by construction).

// vJudgeC02 checks every license match of res; physLine (optional) gives the
// physical line of each input token as known from the construction.
func vJudgeC02(cs *vCase, c *Classifier, in []byte, res Results, physLine []int, what string) (judged int) {
	toks := vTokens(c, in)
	for _, m := range res.Matches {
		if m.MatchType == "Copyright" {
			continue
		}
		K := vDocWords(c, vKey(m))
		if K == nil {
			cs.violation("unknown-document", "%s: match names %q which is not in the corpus", what, vKey(m))
			return
		}
		if m.StartTokenIndex < 0 || m.EndTokenIndex >= len(toks) || m.StartTokenIndex > m.EndTokenIndex {
			cs.violation("span-out-of-range", "%s: %s with %d input tokens", what, vConv(m), len(toks))
			return
		}
		judged++
		R := make([]string, 0, m.EndTokenIndex-m.StartTokenIndex+1)
		for _, t := range toks[m.StartTokenIndex : m.EndTokenIndex+1] {
			R = append(R, t.W)
		}
		// the distance the confidence admits (an integer number of words)
		D := (1 - m.Confidence) * float64(len(K))
		k := int(math.Floor(D + 1e-6))
		if k < 0 {
			cs.violation("confidence-above-1", "%s: %s", what, vConv(m))
			return
		}
		if !vLevAtMost(R, K, k) {
			L := vLev(R, K)
			cs.violation("confidence-overstated", "%s: %s: |K|=%d |R|=%d true word distance L=%d but Confidence admits only %d (bound %.6f)", what, vConv(m), len(K), len(R), L, k, 1-float64(L)/float64(len(K)))
			return
		}
		if toks[m.StartTokenIndex].Line != m.StartLine || toks[m.EndTokenIndex].Line != m.EndLine {
			cs.violation("lines-not-of-span", "%s: %s but first/last word of the span are on lines %d/%d", what, vConv(m), toks[m.StartTokenIndex].Line, toks[m.EndTokenIndex].Line)
			return
		}
		if physLine != nil {
			if len(physLine) != len(toks) {
				cs.inconclusive("%s: construction has %d words, tokenizer saw %d", what, len(physLine), len(toks))
				return
			}
			if physLine[m.StartTokenIndex] != m.StartLine || physLine[m.EndTokenIndex] != m.EndLine {
				cs.violation("lines-not-physical", "%s: %s but by construction the first/last word of the span are on physical lines %d/%d", what, vConv(m), physLine[m.StartTokenIndex], physLine[m.EndTokenIndex])
				return
			}
		}
	}
	return judged
}

// vAdversarial builds inputs that are hard for the diff trimming: edits at the
// very start/end, duplicated paragraphs, a partial second copy right after the
// first.
func vAdversarial(r *rand.Rand, raw string, vocab []string, variant int) string {
	lines := strings.Split(strings.TrimRight(raw, "\n"), "\n")
	words := strings.Fields(raw)
	switch variant % 7 {
	case 5: // damage near the end of the copy, then (after a short gap) its tail phrase again
		if len(words) > 40 {
			w := append([]string{}, words...)
			for i, n := 0, 1+r.Intn(3); i < n; i++ {
				pos := len(w) - 1 - r.Intn(vMin(30, len(w)/2))
				if r.Intn(2) == 0 {
					w[pos] = vOOVWord(r)
				} else {
					w[pos] = vocab[r.Intn(len(vocab))]
				}
			}
			src := words
			if r.Intn(2) == 0 {
				src = w // the repeated tail carries the same damage
			}
			tail := src[len(src)-(6+r.Intn(30)):]
			gap := strings.Fields(vOOVLine(r))[:r.Intn(4)]
			sep := []string{" ", "\n", " \n"}[r.Intn(3)]
			return strings.Join(w, " ") + sep + strings.Join(gap, " ") + sep + strings.Join(tail, " ") + "\n"
		}
		return raw
	case 6: // the head of the copy damaged, preceded by its head phrase
		if len(words) > 40 {
			k := 2 + r.Intn(6)
			w := append([]string{}, words...)
			for i := 0; i < k; i++ {
				w[i] = vocab[r.Intn(len(vocab))]
			}
			head := words[:8+r.Intn(25)]
			gap := strings.Fields(vOOVLine(r))[:1+r.Intn(3)]
			return strings.Join(head, " ") + " " + strings.Join(gap, " ") + " " + strings.Join(w, " ") + "\n"
		}
		return raw
	case 0: // edits at the very start and end
		if len(words) > 6 {
			words[0] = vOOVWord(r)
			words[len(words)-1] = vocab[r.Intn(len(vocab))]
			if r.Intn(2) == 0 {
				words = append([]string{vocab[r.Intn(len(vocab))]}, words...)
			}
		}
		return strings.Join(words, " ") + "\n"
	case 1: // a paragraph duplicated
		if len(lines) > 4 {
			a := r.Intn(len(lines) - 2)
			b := a + 1 + r.Intn(len(lines)-a-1)
			dup := append([]string{}, lines[:b]...)
			dup = append(dup, lines[a:b]...)
			dup = append(dup, lines[b:]...)
			return strings.Join(dup, "\n") + "\n"
		}
		return raw
	case 2: // the first part of a second copy directly after the first
		n := len(words) / (2 + r.Intn(3))
		return strings.Join(words, " ") + "\n" + strings.Join(words[:n], " ") + "\n"
	case 3: // the tail of a copy directly before the full copy
		n := len(words) / (2 + r.Intn(3))
		return strings.Join(words[len(words)-n:], " ") + "\n" + strings.Join(words, " ") + "\n"
	default: // two copies back to back, the second one edited
		return vWithNL(raw) + vWithNL(vMutate(r, raw, 0.1, vocab))
	}
}

// vHyphenLayout renders words with random line breaks and splits some words
// over a line break with a trailing hyphen. It returns the text, the physical
// line of every word (a split word belongs to the line of its first half, as
// the tokenizer documents) and whether the layout contains one of the two
// patterns of known finding KF-C02-1 (continuation over >= 3 lines, hyphen
// line followed by a blank line).
func vHyphenLayout(r *rand.Rand, words []string, allowKF bool) (string, []int, bool) {
	var sb strings.Builder
	lines := make([]int, len(words))
	line := 1
	col := 0
	width := 3 + r.Intn(8)
	kf := false
	atStart := true
	for i, w := range words {
		if !atStart {
			if col >= width {
				sb.WriteByte('\n')
				line++
				col = 0
				width = 3 + r.Intn(8)
			} else {
				sb.WriteByte(' ')
			}
		}
		atStart = false
		lines[i] = line
		if len(w) >= 6 && r.Intn(7) == 0 && i+1 < len(words) {
			cut := 2 + r.Intn(len(w)-3)
			mode := 0
			if allowKF {
				mode = r.Intn(4)
			}
			switch {
			case mode == 2 && len(w) >= 8: // continuation over three lines
				c2 := cut + 1 + r.Intn(len(w)-cut-1)
				sb.WriteString(w[:cut] + "-\n" + w[cut:c2] + "-\n" + w[c2:])
				line += 2
				kf = true
				col = 1
			case mode == 3: // a line ending in a hyphen, followed by a blank line
				sb.WriteString(w + "-\n\n")
				line += 2
				kf = true
				col = 0
				atStart = true
			default:
				sb.WriteString(w[:cut] + "-\n" + w[cut:])
				line++
				col = 1
				if r.Intn(3) == 0 {
					col = width // the second half ends its line
				}
			}
			continue
		}
		sb.WriteString(w)
		col++
	}
	sb.WriteByte('\n')
	return sb.String(), lines, kf
}

func TestVerifC02(t *testing.T) {
	e := vStart(t, "C02")
	defer e.finish()
	docs := vCorpus(t)

	type cdesc struct {
		gen   string
		milli int
		doc   int
		k     int
	}
	var cases []cdesc
	rr := rand.New(rand.NewSource(e.seed*104729 + 2))
	reps := e.pick(2, 12)
	for rep := 0; rep < reps; rep++ {
		for di := range docs {
			cases = append(cases, cdesc{"edited", []int{800, 800, 700, 900, 500}[(rep+di)%5], di, rep})
		}
	}
	nadv := e.pick(1400, 9000)
	for k := 0; k < nadv; k++ {
		cases = append(cases, cdesc{"adversarial", []int{800, 700, 900, 500}[k%4], rr.Intn(len(docs)), k})
	}
	ntrunc := e.pick(300, 4000)
	for k := 0; k < ntrunc; k++ {
		cases = append(cases, cdesc{"truncated", []int{800, 700, 900}[k%3], rr.Intn(len(docs)), k})
	}
	ncc := e.pick(150, 2500)
	for k := 0; k < ncc; k++ {
		cases = append(cases, cdesc{"concatenated", []int{800, 700, 900}[k%3], rr.Intn(len(docs)), k})
	}
	for k, n := 0, len(vScenarios())*e.pick(1, 3); k < n; k++ {
		cases = append(cases, cdesc{"scenario", []int{800, 700, 900}[(k/len(vScenarios()))%3], k, k})
	}
	nsyn := e.pick(200, 1500)
	for k := 0; k < nsyn; k++ {
		cases = append(cases, cdesc{"synthetic-layout", []int{800, 700, 900, 500, 1000}[k%5], 0, k})
	}
	cases = append(cases, cdesc{"kf-witness", 800, 0, 0}, cdesc{"kf-witness", 800, 0, 1})
	for k, n := 0, e.pick(3, 24); k < n; k++ {
		cases = append(cases, cdesc{"large-dictionary", []int{800, 900, 700}[k%3], 0, k})
	}

	for idx, cd := range cases {
		cd := cd
		thr := float64(cd.milli) / 1000
		e.run(idx, cd.gen, map[string]interface{}{"thr": thr, "doc": cd.doc, "k": cd.k}, func(cs *vCase) {
			r := cs.rng
			switch cd.gen {
			case "large-dictionary":
				// a corpus with more than 2^16 distinct words: word ids are handed to the
				// diff library as code points, and not every integer is one (the surrogate
				// range 0xD800-0xDFFF, values beyond 0x10FFFF). Documents whose words have
				// ids around those edges, inputs that exchange a few of their words for
				// other words of the same id range.
				wd := func(i int) string {
					b := []byte("q")
					for k := 0; k < 4; k++ {
						b = append(b, byte('a'+i%26))
						i /= 26
					}
					return string(b) + "z"
				}
				c := NewClassifier(thr)
				nw := 0
				for d := 0; d < 68; d++ {
					var sb strings.Builder
					for i := 0; i < 1000; i++ {
						sb.WriteString(wd(nw))
						nw++
						if i%12 == 11 {
							sb.WriteByte('\n')
						} else {
							sb.WriteByte(' ')
						}
					}
					c.AddContent("License", fmt.Sprintf("Filler%02d", d), "a.txt", []byte(sb.String()))
				}
				njudged := 0
				for ti, start := range []int{0xD800 - 60, 0xD800 + 200 + r.Intn(1000), 0xE000 - 50, 20000 + r.Intn(1000), 0xFFFF - 50, 0xFFF0 + r.Intn(2000)} {
					n := 60 + r.Intn(80)
					words := make([]string, n)
					for i := range words {
						words[i] = wd(start + i)
					}
					r.Shuffle(n, func(i, j int) { words[i], words[j] = words[j], words[i] })
					name := fmt.Sprintf("Target%d", ti)
					c.AddContent("License", name, "t.txt", []byte(strings.Join(words, " ")))
					for v := 0; v < 3; v++ {
						in := append([]string{}, words...)
						for k, ne := 0, 1+r.Intn(4); k < ne; k++ {
							// another word whose id lies in the same neighbourhood (not one of the document's)
							in[r.Intn(n)] = wd(start + n + 1 + r.Intn(300))
						}
						text := vOOVBlock(r, 1) + strings.Join(in, " ") + "\n" + vOOVBlock(r, 1)
						b := []byte(text)
						res := c.Match(b)
						found := false
						for _, m := range res.Matches {
							if m.Name == name {
								found = true
							}
						}
						if !found {
							continue
						}
						nj := vJudgeC02(cs, c, b, res, nil, "License/"+name+"/t.txt")
						if cs.verdict != "ok" {
							cs.setInput(b)
							return
						}
						njudged += nj
					}
				}
				e.count("large_dictionary_words", int64(len(c.dict.words)))
				if njudged > 0 {
					cs.nontrivial(cd.gen, cd.milli, cd.k)
					e.count("matches_judged", int64(njudged))
					e.count("matches_judged_large_dictionary", int64(njudged))
				}
				return
			case "synthetic-layout", "kf-witness":
				// corpus and input made of plain words: the physical line of every word is
				// known from the construction alone
				nv := []int{60, 300, 2000}[r.Intn(3)]
				sd := vSynthCorpus(r, nv, 8, []int{80, 400}[r.Intn(2)])
				c := NewClassifier(thr)
				for _, d := range sd {
					seg := strings.Split(d.key, "/")
					c.AddContent(seg[0], seg[1], seg[2], []byte(d.text))
				}
				vocab := vVocab(c)
				njudged := 0
				for _, d := range sd {
					if len(d.words) < 12 {
						continue
					}
					pre := strings.Fields(vOOVBlock(r, 1+r.Intn(3)))
					post := strings.Fields(vOOVBlock(r, 1+r.Intn(3)))
					mid := strings.Fields(vMutate(r, strings.Join(d.words, " "), []float64{0, 0.03, 0.1}[r.Intn(3)], vocab))
					all := append(append(append([]string{}, pre...), mid...), post...)
					// continuations over three lines and hyphen lines followed by a blank line are
					// part of the ordinary layouts since the repair of KF-C02-1
					allowKF := cd.gen == "kf-witness" || r.Intn(2) == 0
					var text string
					var phys []int
					var kf bool
					if cd.gen == "kf-witness" {
						// deterministic witness: one three-line continuation (k=0) or a hyphen
						// line followed by a blank line (k=1) inside the filler prefix
						if cd.k == 0 {
							// the first filler word continued over three lines
							w := pre[0]
							rest, pl, _ := vHyphenLayout(r, all[1:], false)
							text = w[:2] + "-\n" + w[2:4] + "-\n" + w[4:] + " " + rest
							phys = append([]int{1}, pl...)
							for i := 1; i < len(phys); i++ {
								phys[i] += 2
							}
						} else {
							// the filler prefix ends in a hyphen, then a blank line, then the
							// document: its first word is credited to the blank line
							t1, pl1, _ := vHyphenLayout(r, pre, false)
							t2, pl2, _ := vHyphenLayout(r, append(append([]string{}, d.words...), post...), false)
							text = strings.TrimSuffix(t1, "\n") + "-\n\n" + t2
							off := pl1[len(pl1)-1] + 1
							phys = append([]int{}, pl1...)
							for _, l := range pl2 {
								phys = append(phys, l+off)
							}
						}
						// words sharing the first line of `rest` sit on physical line 3
						kf = true
					} else {
						text, phys, kf = vHyphenLayout(r, all, allowKF)
					}
					in := []byte(text)
					res := c.Match(in)
					save := *cs
					n := vJudgeC02(cs, c, in, res, phys, d.key)
					if cs.verdict == "violation" && kf && (cs.kind == "lines-not-physical") {
						// attribute to KF-C02-1 only if the tokenizer's own lines are consistent
						// (lines-not-of-span did not fire) and the layout contains the pattern
						det := cs.detail
						*cs = save
						cs.setInput(in)
						cs.knownFinding("KF-C02-1", "lines-not-physical", "%s", det)
						return
					}
					if cs.verdict != "ok" {
						cs.setInput(in)
						return
					}
					njudged += n
				}
				if njudged > 0 {
					cs.nontrivial(cd.gen, cd.milli, cd.k)
					e.count("matches_judged", int64(njudged))
					e.count("matches_judged_physical_lines", int64(njudged))
				}
				return
			}
			c := vClassifier(t, thr)
			vocab := vVocab(c)
			d := docs[cd.doc%len(docs)]
			if lim := vCostCap(thr, true); lim >= 0 && len(d.raw) > 2500 {
				// low thresholds are only driven with small inputs (cost model, DESIGN §0)
				for tries := 0; len(d.raw) > 2500 && tries < 50; tries++ {
					d = docs[r.Intn(len(docs))]
				}
				if len(d.raw) > 2500 {
					return
				}
			}
			var text string
			switch cd.gen {
			case "edited":
				rate := []float64{0.02, 0.05, 0.10, 0.15, 0.20}[r.Intn(5)]
				text = vOOVBlock(r, r.Intn(4)) + vWithNL(vMutate(r, string(d.raw), rate, vocab)) + vOOVBlock(r, r.Intn(4))
			case "adversarial":
				text = vOOVBlock(r, r.Intn(3)) + vAdversarial(r, string(d.raw), vocab, cd.k) + vOOVBlock(r, r.Intn(3))
			case "truncated":
				text = vOOVBlock(r, r.Intn(3)) + vWithNL(vTruncate(r, string(d.raw), cd.k%2 == 0)) + vOOVBlock(r, r.Intn(3))
			case "concatenated":
				text = vMakeBase(r, 3, docs, cd.doc, vocab).text
			case "scenario":
				text = vMakeBase(r, 4, docs, cd.doc, vocab).text
			}
			if r.Intn(3) == 0 {
				text = vSpice(r, text, 12+r.Intn(40))
			}
			in := []byte(text)
			cs.setInput(in)
			res := c.Match(in)
			n := vJudgeC02(cs, c, in, res, nil, d.key)
			if n > 0 && cs.verdict == "ok" {
				cs.nontrivial(in, cd.milli)
				e.count("matches_judged", int64(n))
			}
		})
	}
	_ = bytes.MinRead
	_ = fmt.Sprint
}
