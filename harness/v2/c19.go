//go:build verif

package classifier

import (
	"encoding/json"
	"fmt"
	"math/rand"
	"os"
	"path/filepath"
	"strings"
	"testing"
)

// C19 — the identify_license CLI reports what the library finds.
//
// This harness generates the file trees and records, for every file, what
// Match returns in-process on assets.DefaultClassifier() (the classifier the
// CLI's backend uses). The driver then runs the real CLI binary (built from the
// tree) as a child process and compares stdout, the JSON file and the exit
// status with these records.

type vC19Match struct {
	Line   string  `json:"line"` // what the CLI prints after the file name
	Header bool    `json:"header"`
	Name   string  `json:"name"`
	Conf   float64 `json:"conf"`
	Start  int     `json:"start"`
	End    int     `json:"end"`
}

type vC19File struct {
	Rel     string      `json:"rel"`
	Abs     string      `json:"abs"`
	Kind    string      `json:"kind"`
	Matches []vC19Match `json:"matches"`
}

type vC19Tree struct {
	Dir   string     `json:"dir"`
	Files []vC19File `json:"files"`
}

func vLongLine(r *rand.Rand, n int) string {
	var sb strings.Builder
	for sb.Len() < n {
		sb.WriteString(vOOVWord(r))
		sb.WriteByte(' ')
	}
	return sb.String()
}

func TestVerifC19Expect(t *testing.T) {
	e := vStart(t, "C19")
	defer e.finish()
	docs := vCorpus(t)
	if VDefaultClassifier == nil {
		t.Fatal("assets.DefaultClassifier hook not registered")
	}
	c, err := VDefaultClassifier()
	if err != nil {
		t.Fatal(err)
	}
	vocab := vVocab(c)
	base := filepath.Join(e.scratch, "c19")
	os.MkdirAll(base, 0755)
	ntrees := e.pick(12, 300)
	for ti := 0; ti < ntrees; ti++ {
		ti := ti
		e.run(ti, "tree", map[string]interface{}{"tree": ti}, func(cs *vCase) {
			r := cs.rng
			dir := filepath.Join(base, fmt.Sprintf("t%03d", ti))
			nf := []int{1, 1, 2, 3, 5, 8, 13, 25, 60}[r.Intn(9)]
			if ti < 3 {
				nf = []int{1, 4, 30}[ti]
			}
			tree := vC19Tree{Dir: dir}
			allEmpty := ti%6 == 5 // a tree without any license: the CLI must exit non-zero
			for fi := 0; fi < nf; fi++ {
				sub := []string{"", "src", "src/deep/er", "third_party/x", "a b"}[r.Intn(5)]
				name := []string{"LICENSE", "COPYING.txt", "file.go", "notes.md", "x.c", "weird name.txt"}[r.Intn(6)]
				rel := filepath.Join(sub, fmt.Sprintf("%02d_%s", fi, name))
				kind := []string{"licensed", "licensed", "edited", "several", "unlicensed", "empty", "no-trailing-newline", "crlf", "long-line-before", "long-line-inside", "long-line-after", "invalid-utf8", "header", "notice-only"}[r.Intn(14)]
				if r.Intn(12) == 0 || (ti == 1 && fi == 0) || (ti == 2 && fi%10 == 3) {
					kind = "headers-adjacent"
				}
				if (ti == 1 && fi == 1) || (ti > 3 && r.Intn(40) == 0) {
					kind = "megabytes-before"
				}
				if allEmpty {
					kind = []string{"unlicensed", "empty"}[r.Intn(2)]
				}
				d := docs[r.Intn(len(docs))]
				for len(d.raw) > 15000 {
					d = docs[r.Intn(len(docs))]
				}
				var content string
				switch kind {
				case "licensed":
					content = vMakeBase(r, 0, docs, r.Intn(len(docs)), vocab).text
				case "edited":
					content = vMakeBase(r, 1, docs, r.Intn(len(docs)), vocab).text
				case "several":
					content = vMakeBase(r, 3, docs, r.Intn(len(docs)), vocab).text
				case "unlicensed":
					content = vOOVBlock(r, 1+r.Intn(30))
				case "empty":
					content = ""
				case "no-trailing-newline":
					content = strings.TrimRight(vOOVBlock(r, 2)+string(d.raw), "\n")
				case "crlf":
					content = strings.ReplaceAll(vOOVBlock(r, 2)+vWithNL(string(d.raw))+vOOVBlock(r, 1), "\n", "\r\n")
					// every fifth line ends in CR CR LF: only the CR of the line terminator is
					// not part of the line's text
					ls := strings.Split(content, "\r\n")
					for i := 2; i < len(ls)-1; i += 5 {
						ls[i] += "\r"
					}
					content = strings.Join(ls, "\r\n")
				case "long-line-before":
					content = vLongLine(r, 70000+r.Intn(130000)) + "\n" + vWithNL(string(d.raw)) + vOOVBlock(r, 1)
				case "long-line-inside":
					lines := strings.Split(vWithNL(string(d.raw)), "\n")
					k := len(lines) / 2
					content = vOOVBlock(r, 1) + strings.Join(lines[:k], "\n") + "\n" + vLongLine(r, 70000+r.Intn(30000)) + "\n" + strings.Join(lines[k:], "\n")
				case "long-line-after":
					content = vOOVBlock(r, 1) + vWithNL(string(d.raw)) + vLongLine(r, 70000+r.Intn(130000)) + "\n"
				case "invalid-utf8":
					content = "\xff\xfe binary \x00\x01 " + vOOVBlock(r, 1) + vWithNL(string(d.raw)) + "tail \xe2\x80"
				case "header":
					for !strings.HasPrefix(d.key, "Header/") {
						d = docs[r.Intn(len(docs))]
					}
					content = "// " + strings.ReplaceAll(strings.TrimRight(string(d.raw), "\n"), "\n", "\n// ") + "\npackage main\n" + vOOVBlock(r, 3)
				case "megabytes-before":
					// the license text starts beyond the first MiB (ordinary lines)
					var sb strings.Builder
					for sb.Len() < (1<<20)+r.Intn(1<<19) {
						sb.WriteString(vOOVLine(r))
						sb.WriteByte('\n')
					}
					content = sb.String() + vWithNL(string(d.raw)) + vOOVBlock(r, 1)
				case "headers-adjacent":
					// several header matches next to each other in the result list (and
					// nothing else, or a license after them)
					var sb strings.Builder
					for k, n := 0, 2+r.Intn(3); k < n; k++ {
						h := docs[r.Intn(len(docs))]
						for !strings.HasPrefix(h.key, "Header/") || len(h.raw) > 4000 {
							h = docs[r.Intn(len(docs))]
						}
						sb.WriteString("// " + strings.ReplaceAll(strings.TrimRight(string(h.raw), "\n"), "\n", "\n// ") + "\n")
						sb.WriteString(vOOVBlock(r, 1+r.Intn(2)))
					}
					if r.Intn(2) == 0 {
						sb.WriteString(vWithNL(string(d.raw)))
					}
					content = sb.String()
				case "notice-only":
					content = "Copyright 2020 Example Corp\n" + vOOVBlock(r, 2)
				}
				// what precedes the text belongs to the file: blank lines, CRs, a byte order
				// mark shift every line number if the tool were to strip them before Match
				if content != "" && r.Intn(4) == 0 {
					content = []string{"\n\n\n", "\r\n\r\n", " \t\n\n", "\ufeff", "\ufeff\n\n", "\n", "\n \n\t\n\n\n"}[r.Intn(7)] + content
					kind += "+lead-in"
					e.count("files_with_lead_in", 1)
				}
				abs := filepath.Join(dir, rel)
				os.MkdirAll(filepath.Dir(abs), 0755)
				if err := os.WriteFile(abs, []byte(content), 0644); err != nil {
					cs.inconclusive("cannot write %s: %v", abs, err)
					return
				}
				f := vC19File{Rel: rel, Abs: abs, Kind: kind}
				for _, m := range c.Match([]byte(content)).Matches {
					name := m.Name
					if m.MatchType != "License" && m.MatchType != "Header" {
						name = fmt.Sprintf("%s:%s", m.MatchType, m.Name)
					}
					f.Matches = append(f.Matches, vC19Match{
						Line:   fmt.Sprintf("%s (variant: %v, confidence: %v, start: %v, end: %v)", name, m.Variant, m.Confidence, m.StartLine, m.EndLine),
						Header: m.MatchType == "Header", Name: m.Name, Conf: m.Confidence, Start: m.StartLine, End: m.EndLine,
					})
				}
				tree.Files = append(tree.Files, f)
				e.count("files", 1)
				e.count("expected_matches", int64(len(f.Matches)))
			}
			if ti%3 == 1 && len(tree.Files) > 0 {
				// a symbolic link to a file of the tree (the first one with a match, if any):
				// it names a file whose bytes are the target's, so it is reported like it
				tgt := tree.Files[0]
				for _, f := range tree.Files {
					if len(f.Matches) > 0 {
						tgt = f
						break
					}
				}
				rel := "zz_link_to_" + filepath.Base(tgt.Rel)
				abs := filepath.Join(dir, rel)
				if err := os.Symlink(tgt.Abs, abs); err == nil {
					tree.Files = append(tree.Files, vC19File{Rel: rel, Abs: abs, Kind: "symlink-to-" + tgt.Kind, Matches: tgt.Matches})
					e.count("files", 1)
					e.count("symlinked_files", 1)
					e.count("expected_matches", int64(len(tgt.Matches)))
				}
			}
			b, _ := json.Marshal(tree)
			os.WriteFile(filepath.Join(base, fmt.Sprintf("t%03d.json", ti)), b, 0644)
			cs.nontrivial("tree", ti)
		})
	}
}
