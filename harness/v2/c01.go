//go:build verif

package classifier

import (
	"fmt"
	"math/rand"
	"strings"
	"sync"
	"testing"
)

// C01 — planted corpus documents are found whole at confidence 1.0.
//
// Positions are known by construction: the generator knows how many lines and
// how many (filler) words precede each copy; the copy's own token count and
// first/last word-bearing line come from tokenizing the document on its own
// (embedded corpus) or entirely from the generator (synthetic corpora).

type vPlant struct {
	key                string // category/name/variant that was planted
	startTok, endTok   int
	startLine, endLine int
}

// vFindPlant reports whether res contains the planted copy as the property
// demands (Name + MatchType, Confidence exactly 1.0, exact token and line span).
func vFindPlant(res Results, p vPlant) (bool, []string) {
	seg := strings.Split(p.key, "/")
	var near []string
	for _, m := range res.Matches {
		if m.MatchType == seg[0] && m.Name == seg[1] {
			near = append(near, vConv(m).String())
			if m.Confidence == 1.0 && m.StartTokenIndex == p.startTok && m.EndTokenIndex == p.endTok && m.StartLine == p.startLine && m.EndLine == p.endLine {
				return true, near
			}
		}
	}
	return false, near
}

// synthetic vocabulary: pronounceable lower-case words that are no filler, no
// list marker and contain no digit.
func vSynthVocab(r *rand.Rand, n int) []string {
	cons := "bcdfghlmnprstvw"
	vow := "aeiou"
	seen := map[string]bool{}
	var out []string
	for len(out) < n {
		syl := 2 + r.Intn(3)
		var sb strings.Builder
		for i := 0; i < syl; i++ {
			sb.WriteByte(cons[r.Intn(len(cons))])
			sb.WriteByte(vow[r.Intn(len(vow))])
		}
		if r.Intn(3) == 0 {
			sb.WriteByte(cons[r.Intn(len(cons))])
		}
		w := sb.String()
		if seen[w] || strings.Contains(w, "https") || interchangeableWords[w] != "" || w == "copyright" {
			continue
		}
		seen[w] = true
		out = append(out, w)
	}
	return out
}

type vSynthDoc struct {
	key   string
	words []string
	text  string // layout with line breaks (and optional upper-casing)
	lines int    // number of physical lines of text that carry words (== line of last word)
}

func vZipf(r *rand.Rand, n int) int {
	// cheap Zipf-like index
	x := r.Float64()
	return int(float64(n) * x * x * x)
}

// vLayout renders words as text with random line breaks; returns the text
// (newline terminated) and the 1-based line of every word.
func vLayout(r *rand.Rand, words []string, fancy bool) (string, []int) {
	var sb strings.Builder
	lines := make([]int, len(words))
	line := 1
	col := 0
	width := 4 + r.Intn(10)
	for i, w := range words {
		if col == width {
			sb.WriteByte('\n')
			line++
			col = 0
			width = 4 + r.Intn(10)
			if fancy && r.Intn(6) == 0 {
				sb.WriteByte('\n') // blank line
				line++
			}
		} else if i > 0 {
			sb.WriteByte(' ')
		}
		if fancy && r.Intn(8) == 0 {
			w = strings.ToUpper(w[:1]) + w[1:]
		}
		sb.WriteString(w)
		lines[i] = line
		col++
	}
	sb.WriteByte('\n')
	return sb.String(), lines
}

// vSynthCorpus builds a synthetic corpus: nd documents of 4..maxLen words over
// a vocabulary of nv words, with near-duplicates, containment and exact
// duplicates under two names.
func vSynthCorpus(r *rand.Rand, nv, nd, maxLen int, forced ...int) []vSynthDoc {
	vocab := vSynthVocab(r, nv)
	var docs []vSynthDoc
	mk := func(n int) []string {
		w := make([]string, n)
		for i := range w {
			w[i] = vocab[vZipf(r, len(vocab))]
		}
		return w
	}
	for i := 0; i < nd; i++ {
		var words []string
		kind := r.Intn(10)
		if i < len(forced) {
			kind = 100 // a document of exactly the forced length (boundary lengths around q)
		}
		switch {
		case kind == 100:
			words = mk(forced[i])
		case kind == 0 && len(docs) > 0: // near-duplicate of an earlier document
			src := docs[r.Intn(len(docs))].words
			words = append([]string{}, src...)
			for k := 0; k < 1+len(words)/15; k++ {
				words[r.Intn(len(words))] = vocab[r.Intn(len(vocab))]
			}
		case kind == 1 && len(docs) > 0: // a section of an earlier document
			src := docs[r.Intn(len(docs))].words
			if len(src) >= 12 {
				a := r.Intn(len(src) / 2)
				b := a + len(src)/3 + r.Intn(len(src)/6+1)
				words = append([]string{}, src[a:b]...)
			} else {
				words = mk(4 + r.Intn(maxLen-3))
			}
		case kind == 2 && len(docs) > 0: // exact duplicate under another name
			words = append([]string{}, docs[r.Intn(len(docs))].words...)
		default:
			n := 4 + r.Intn(maxLen-3)
			if r.Intn(3) == 0 {
				n = 4 + r.Intn(30)
			}
			words = mk(n)
		}
		text, lines := vLayout(r, words, true)
		docs = append(docs, vSynthDoc{key: fmt.Sprintf("License/Syn%d/v%d.txt", i, r.Intn(3)), words: words, text: text, lines: lines[len(lines)-1]})
	}
	return docs
}

func TestVerifC01(t *testing.T) {
	e := vStart(t, "C01")
	defer e.finish()
	docs := vCorpus(t)

	type cdesc struct {
		gen   string
		milli int
		doc   int
		ctx   int
		extra int
	}
	var cases []cdesc
	rr := rand.New(rand.NewSource(e.seed*7919 + 1))
	if e.quick() {
		for di := range docs {
			cases = append(cases, cdesc{"embedded-single", 800, di, 0, 0})
		}
		for _, m := range []int{700, 750, 900, 950, 1000, 850, 870, 780, 915} {
			for k := 0; k < 40; k++ {
				cases = append(cases, cdesc{"embedded-single", m, rr.Intn(len(docs)), k, 0})
			}
		}
		for k := 0; k < 40; k++ {
			cases = append(cases, cdesc{"embedded-multi", []int{700, 800, 900, 1000}[k%4], rr.Intn(len(docs)), k, 0})
		}
		// thresholds whose quotient t/(1-t) has a fractional part (0.85 -> 5.67, 0.78 -> 3.55,
		// 0.915 -> 10.76, 0.87 -> 6.69, 0.73 -> 2.70) next to the round ones
		for k, m := range []int{700, 800, 900, 1000, 750, 950, 850, 780, 915, 870, 730, 895} {
			cases = append(cases, cdesc{"synthetic", m, 0, k, 24})
		}
		cases = append(cases, cdesc{"mixed", 800, 0, 0, 12})
	} else {
		millis := []int{}
		for m := 700; m <= 980; m += 20 {
			millis = append(millis, m)
		}
		millis = append(millis, 990, 1000)
		for _, m := range millis {
			for di := range docs {
				for k := 0; k < 5; k++ {
					cases = append(cases, cdesc{"embedded-single", m, di, k, 0})
				}
			}
		}
		for k := 0; k < 1000; k++ {
			cases = append(cases, cdesc{"embedded-multi", millis[k%len(millis)], rr.Intn(len(docs)), k, 0})
		}
		for k := 0; k < 60; k++ {
			cases = append(cases, cdesc{"synthetic", millis[k%len(millis)], 0, k, 40})
		}
		for k := 0; k < 8; k++ {
			cases = append(cases, cdesc{"mixed", millis[(k*5)%len(millis)], 0, k, 20})
		}
		cases = append(cases, cdesc{"bigdict", 800, 0, 0, 0}, cdesc{"bigdict", 900, 0, 1, 0})
	}

	// per-document token facts (document tokenized on its own)
	type dfact struct {
		n, first, last int
	}
	factCache := map[string]dfact{}
	var factMu sync.Mutex
	fact := func(c *Classifier, d vDoc) dfact {
		k := fmt.Sprintf("%p/%s", c, d.key)
		factMu.Lock()
		f, ok := factCache[k]
		factMu.Unlock()
		if ok {
			return f
		}
		tk := vTokens(c, d.raw)
		f = dfact{n: len(tk)}
		if len(tk) > 0 {
			f.first, f.last = tk[0].Line, tk[len(tk)-1].Line
		}
		factMu.Lock()
		factCache[k] = f
		factMu.Unlock()
		return f
	}

	for idx, cd := range cases {
		cd := cd
		thr := float64(cd.milli) / 1000
		params := map[string]interface{}{"thr": thr, "doc": cd.doc, "ctx": cd.ctx}
		e.run(idx, cd.gen, params, func(cs *vCase) {
			r := cs.rng
			q := vQSpec(cd.milli)
			switch cd.gen {
			case "embedded-single", "embedded-multi":
				c := vClassifier(t, thr)
				k := 1
				if cd.gen == "embedded-multi" {
					k = 2 + r.Intn(3)
				}
				var sb strings.Builder
				var plants []vPlant
				pre := vOOVBlock(r, 1+r.Intn(5))
				if err := vCheckFiller(c, pre); err != nil {
					cs.inconclusive("filler: %v", err)
					return
				}
				sb.WriteString(pre)
				toks := len(strings.Fields(pre))
				lines := strings.Count(pre, "\n")
				var names []string
				for j := 0; j < k; j++ {
					d := docs[cd.doc]
					if j > 0 && r.Intn(4) != 0 { // repeats allowed
						d = docs[r.Intn(len(docs))]
						if len(d.raw) > 15000 {
							d = docs[cd.doc]
						}
					}
					f := fact(c, d)
					raw := vWithNL(string(d.raw))
					if f.n >= q && f.n > 0 {
						plants = append(plants, vPlant{d.key, toks, toks + f.n - 1, lines + f.first, lines + f.last})
						names = append(names, d.key)
					}
					sb.WriteString(raw)
					toks += f.n
					lines += strings.Count(raw, "\n")
					gap := vOOVBlock(r, 1+r.Intn(4))
					sb.WriteString(gap)
					toks += len(strings.Fields(gap))
					lines += strings.Count(gap, "\n")
				}
				in := []byte(sb.String())
				cs.setInput(in)
				if len(plants) == 0 {
					e.count("below_q_documents", 1)
					return
				}
				res := c.Match(in)
				cs.nontrivial(names, cd.milli, in)
				for _, p := range plants {
					if ok, near := vFindPlant(res, p); !ok {
						cs.violation("planted-copy-not-found", "thr=%v planted %s expected conf=1 tok[%d-%d] line[%d-%d]; same-name matches: %v; all: %s", thr, p.key, p.startTok, p.endTok, p.startLine, p.endLine, near, vFmtRes(res))
						return
					}
				}
				e.count("plants_found", int64(len(plants)))
			case "synthetic", "mixed":
				nvi := r.Intn(6)
				nv := []int{5, 12, 50, 200, 1000, 3000}[nvi]
				// tiny vocabularies make q-gram hits quadratic: keep their documents short
				maxLen := []int{12, 60, 300, 1200, 3000}[r.Intn([]int{2, 3, 4, 5, 5, 5}[nvi])]
				if cd.gen == "mixed" {
					maxLen = []int{60, 300}[r.Intn(2)]
				}
				// documents of exactly q, q+1 and 2q words: the shortest the statement covers
				sd := vSynthCorpus(r, nv, cd.extra, maxLen, q, q+1, 2*q, q)
				var c *Classifier
				if cd.gen == "mixed" {
					c = vBuild(thr, docs)
				} else {
					c = NewClassifier(thr)
				}
				// the corpus grows while the classifier is already in use: half of the
				// documents are added after the first Match calls
				for i, d := range sd {
					if i == len(sd)/2 {
						c.Match([]byte(vOOVBlock(r, 2)))
						c.Match([]byte(sd[0].text))
					}
					seg := strings.Split(d.key, "/")
					c.AddContent(seg[0], seg[1], seg[2], []byte(d.text))
				}
				cs.observe("vocab", nv)
				cs.observe("docs", len(sd))
				nplant := 0
				for di, d := range sd {
					if len(d.words) < q {
						continue
					}
					// every synthetic word must be one token (independent check of the generator)
					pre := vOOVBlock(r, 1+r.Intn(4))
					post := vOOVBlock(r, 1+r.Intn(4))
					// a fresh layout of the same words: the planted copy need not share the
					// corpus document's line breaks
					text, wl := vLayout(r, d.words, r.Intn(2) == 0)
					in := []byte(pre + text + post)
					pt := len(strings.Fields(pre))
					pl := strings.Count(pre, "\n")
					p := vPlant{d.key, pt, pt + len(d.words) - 1, pl + wl[0], pl + wl[len(wl)-1]}
					res := c.Match(in)
					nplant++
					if ok, near := vFindPlant(res, p); !ok {
						cs.setInput(in)
						cs.violation("planted-copy-not-found", "synthetic corpus (vocab %d, %d docs) thr=%v planted doc#%d %s (%d words) expected conf=1 tok[%d-%d] line[%d-%d]; same-name: %v; all: %s", nv, len(sd), thr, di, d.key, len(d.words), p.startTok, p.endTok, p.startLine, p.endLine, near, vFmtRes(res))
						return
					}
				}
				if nplant > 0 {
					cs.nontrivial(cd.gen, cd.milli, cd.ctx, nv, maxLen)
					e.count("plants_found", int64(nplant))
					e.count("synthetic_plants", int64(nplant))
				}
			case "bigdict":
				// dictionary ids beyond 55296 (token ids are used as runes)
				c := NewClassifier(thr)
				n := 0
				mk := func(i int) string {
					return "w" + strings.Map(func(r rune) rune { return 'a' + (r - '0') }, fmt.Sprint(i))
				}
				var all [][]string
				for d := 0; d < 70; d++ {
					ws := make([]string, 1000)
					for i := range ws {
						ws[i] = mk(n)
						n++
					}
					all = append(all, ws)
					c.AddContent("License", fmt.Sprintf("big%d", d), "license.txt", []byte(strings.Join(ws, " ")))
				}
				np := 0
				for _, di := range []int{3, 54, 55, 56, 57, 69} {
					ws := all[di]
					pre := vOOVBlock(r, 2)
					text, wl := vLayout(r, ws, false)
					in := []byte(pre + text + vOOVBlock(r, 2))
					pt := len(strings.Fields(pre))
					p := vPlant{fmt.Sprintf("License/big%d/license.txt", di), pt, pt + len(ws) - 1, 2 + wl[0], 2 + wl[len(wl)-1]}
					res := c.Match(in)
					np++
					if ok, near := vFindPlant(res, p); !ok {
						cs.setInput(in)
						cs.violation("planted-copy-not-found", "big dictionary (%d words) planted %s first id %d: same-name %v all %s", n, p.key, c.dict.getIndex(ws[0]), near, vFmtRes(res))
						return
					}
				}
				cs.nontrivial("bigdict", cd.milli)
				e.count("plants_found", int64(np))
			}
		})
	}
}
