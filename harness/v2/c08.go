//go:build verif

package classifier

import (
	"bytes"
	"errors"
	"fmt"
	"io"
	"math/rand"
	"strings"
	"testing"
	"testing/iotest"
)

// C08 — streaming input equals in-memory input; reader faults surface as errors.

var errBoom = errors.New("verif: injected reader failure")

// vFailReader delivers exactly k bytes, then fails. together=true returns the
// last bytes and the error from the same Read call.
// failure values a reader may return: a plain error, and errors that merely WRAP
// io.EOF / io.ErrUnexpectedEOF (they are not end-of-input)
var vBoomErrors = []error{errBoom, fmt.Errorf("verif: link reset (%w)", io.ErrUnexpectedEOF), fmt.Errorf("verif: short read: %w", io.EOF)}

type vFailReader struct {
	err      error
	data     []byte
	k        int
	pos      int
	together bool
	chunk    int
}

func (f *vFailReader) Read(p []byte) (int, error) {
	boom := f.err
	if boom == nil {
		boom = errBoom
	}
	if f.pos >= f.k {
		return 0, boom
	}
	n := f.k - f.pos
	if n > len(p) {
		n = len(p)
	}
	if f.chunk > 0 && n > f.chunk {
		n = f.chunk
	}
	copy(p, f.data[f.pos:f.pos+n])
	f.pos += n
	if f.together && f.pos >= f.k {
		return n, boom
	}
	return n, nil
}

// vZeroReader interleaves (0, nil) reads (at most twice in a row).
type vZeroReader struct {
	data  []byte
	r     *rand.Rand
	zeros int
}

func (z *vZeroReader) Read(p []byte) (int, error) {
	if len(z.data) == 0 {
		return 0, io.EOF
	}
	if z.zeros < 2 && z.r.Intn(3) == 0 {
		z.zeros++
		return 0, nil
	}
	z.zeros = 0
	n := 1 + z.r.Intn(64)
	if n > len(p) {
		n = len(p)
	}
	if n > len(z.data) {
		n = len(z.data)
	}
	copy(p, z.data[:n])
	z.data = z.data[n:]
	return n, nil
}

type vFixedReader struct {
	data []byte
	n    int
}

func (f *vFixedReader) Read(p []byte) (int, error) {
	if len(f.data) == 0 {
		return 0, io.EOF
	}
	n := f.n
	if n > len(p) {
		n = len(p)
	}
	if n > len(f.data) {
		n = len(f.data)
	}
	copy(p, f.data[:n])
	f.data = f.data[n:]
	return n, nil
}

// vC08Inputs: license-bearing inputs with multi-byte runes, invalid UTF-8 and
// hyphen/newline sequences sprinkled in so that pads/fragmentations move them
// across the 1020/1024-byte buffer edges.
func vC08Inputs(r *rand.Rand, docs []vDoc, n int, maxLen int) [][]byte {
	spice := []string{"—", "‐", "‒", "“", "”", "é", "漢字", "😀", "©", "§", "·", " ", " ", "-\n", "x-\ny", "-\r\n", "x-\r\ny", "\r\n", "\xff", "\xe2\x80", "\xf0\x9f\x98", "&amp;", "&#169;"}
	var out [][]byte
	for len(out) < n {
		d := docs[r.Intn(len(docs))]
		if len(d.raw) > maxLen || len(d.raw) < 200 {
			continue
		}
		words := strings.Fields(string(d.raw))
		var sb strings.Builder
		if len(out)%5 == 4 {
			// a short license after more than a buffer of multi-byte text, cut inside a
			// letter of its last word: what the read buffer still holds from the previous
			// chunk at the place where the input ends is a continuation byte
			if len(d.raw) > 900 {
				continue2 := false
				for tries := 0; tries < 200; tries++ {
					d = docs[r.Intn(len(docs))]
					if len(d.raw) <= 900 && len(d.raw) >= 200 {
						continue2 = true
						break
					}
				}
				if !continue2 {
					continue
				}
				words = strings.Fields(string(d.raw))
			}
			unit := []string{"漢字 ", "é ", "😀 ", "漢é字 "}[r.Intn(4)]
			for sb.Len() < 1100+r.Intn(600) {
				sb.WriteString(unit)
				if r.Intn(12) == 0 {
					sb.WriteByte('\n')
				}
			}
			sb.WriteByte('\n')
			text := sb.String() + strings.Join(words, " ")
			text = strings.TrimRight(text, " \n.") + []string{"\xc3", "\xe6\xbc", "\xe6", "\xf0\x9f"}[r.Intn(4)]
			out = append(out, []byte(text))
			continue
		}
		// every other input starts directly with the license text: whatever the
		// tokenizer loses or garbles at the very beginning of the stream then shows in
		// the result (an unknown word in front would absorb it)
		if len(out)%2 == 0 {
			sb.WriteString(vOOVBlock(r, 1))
		}
		col := 0
		// one input in four has CR LF line ends, with words continued over them
		crlf := len(out)%4 == 1
		for _, w := range words {
			if crlf && len(w) > 4 && w[0] < 128 && w[1] < 128 && w[2] < 128 && r.Intn(10) == 0 {
				w = w[:2] + "-\r\n" + w[2:]
				col = 0
			}
			sb.WriteString(w)
			switch {
			case r.Intn(25) == 0:
				sb.WriteString(spice[r.Intn(len(spice))])
				sb.WriteByte(' ')
			case col > 8+r.Intn(8):
				if crlf {
					sb.WriteByte('\r')
				}
				sb.WriteByte('\n')
				col = 0
			default:
				sb.WriteByte(' ')
			}
			col++
		}
		// tail: truncated / invalid sequences at the very end
		text := sb.String()
		if k := r.Intn(11); k < 8 {
			text += []string{"\n", "", " end\xe2\x80", " end\xf0\x9f", " end\xff", " word-", " word-\n", "\n" + vOOVBlock(r, 1)}[k]
		} else {
			// a file cut in the middle of a letter of its last word
			text = strings.TrimRight(text, " \n") + []string{"\xc3", "\xe6\xbc", "\xe6"}[k-8]
		}
		out = append(out, []byte(text))
	}
	return out
}

// vComplete returns in with the UTF-8 sequence it ends in the middle of completed
// (the file before it was cut), or nil when in does not end in a truncated sequence.
func vComplete(in []byte) []byte {
	for k := 1; k <= 3 && k <= len(in); k++ {
		b := in[len(in)-k]
		if b&0xC0 == 0x80 {
			continue // continuation byte: look further back for the lead
		}
		need := 0
		switch {
		case b&0xE0 == 0xC0:
			need = 2
		case b&0xF0 == 0xE0:
			need = 3
		case b&0xF8 == 0xF0:
			need = 4
		}
		if need == 0 || need <= k {
			return nil
		}
		out := append([]byte{}, in...)
		for i := k; i < need; i++ {
			out = append(out, 0xA9)
		}
		return out
	}
	return nil
}

func vResEqual(a, b Results) (bool, string) {
	if a.TotalInputLines != b.TotalInputLines {
		return false, fmt.Sprintf("TotalInputLines %d vs %d", a.TotalInputLines, b.TotalInputLines)
	}
	x, y := vAll(a), vAll(b)
	if !vSame(x, y, true, 0, 0) {
		return false, fmt.Sprintf("matches differ:\n  %s\n  %s", vFmt(x), vFmt(y))
	}
	return true, ""
}

func TestVerifC08(t *testing.T) {
	e := vStart(t, "C08")
	defer e.finish()
	docs := vCorpus(t)
	thr := 0.8
	c := vClassifier(t, thr)

	rr := rand.New(rand.NewSource(e.seed*1000003 + 8))
	nin := e.pick(6, 60)
	inputs := vC08Inputs(rr, docs, nin, 6000)
	big := vC08Inputs(rr, docs, e.pick(6, 40), 60000)
	// plus the scenario files and two fixed small texts
	fixed := [][]byte{[]byte("a-\nb c\n"), []byte(strings.Repeat("—", 700) + " the mit license\n")}
	inputs = append(inputs, fixed...)

	type cdesc struct {
		gen    string
		in     int
		lo, hi int
		style  int
	}
	var cases []cdesc
	readers := 9
	for i := range inputs {
		for k := 0; k < readers; k++ {
			cases = append(cases, cdesc{"fragmentation", i, 0, 0, k})
		}
		// every pad width 0 .. 2*1024+8, in blocks
		for lo := 0; lo <= 2*1024+8; lo += 64 {
			hi := lo + 63
			if hi > 2*1024+8 {
				hi = 2*1024 + 8
			}
			cases = append(cases, cdesc{"pad", i, lo, hi, 0})
		}
		// every failure offset 0 .. len(input), in blocks, both delivery styles
		for lo := 0; lo <= len(inputs[i]); lo += 256 {
			hi := lo + 255
			if hi > len(inputs[i]) {
				hi = len(inputs[i])
			}
			cases = append(cases, cdesc{"fail-offset", i, lo, hi, 0}, cdesc{"fail-offset", i, lo, hi, 1})
		}
	}
	for i := range big {
		for k := 0; k < readers; k++ {
			cases = append(cases, cdesc{"fragmentation-large", i, 0, 0, k})
		}
		cases = append(cases, cdesc{"fail-offset-sampled", i, 0, 0, 0}, cdesc{"fail-offset-sampled", i, 0, 0, 1})
	}
	for i := range vScenarios() {
		cases = append(cases, cdesc{"fragmentation-scenario", i, 0, 0, i % readers})
	}

	mkReader := func(r *rand.Rand, in []byte, k int) (io.Reader, string) {
		switch k {
		case 0:
			return iotest.OneByteReader(bytes.NewReader(in)), "one-byte"
		case 1:
			return &vChunkReader{data: in, r: r, max: 7}, "chunks-1..7"
		case 2:
			return &vChunkReader{data: in, r: r, max: 2000}, "chunks-1..2000"
		case 3:
			return &vFixedReader{data: in, n: 1020}, "fixed-1020"
		case 4:
			return &vFixedReader{data: in, n: 1024}, "fixed-1024"
		case 5:
			return &vFixedReader{data: in, n: 1028}, "fixed-1028"
		case 6:
			return iotest.DataErrReader(bytes.NewReader(in)), "data+EOF"
		case 7:
			return &vZeroReader{data: in, r: r}, "zero-length-reads"
		default:
			return iotest.HalfReader(bytes.NewReader(in)), "half"
		}
	}

	// a second classifier with every trace phase switched on (into a discarding
	// Tracer): what is traced between reading and the error check sees a failed read
	ct := vBuild(thr, docs)
	ct.SetTraceConfiguration(&TraceConfiguration{TracePhases: "*", TraceLicenses: "*", Tracer: func(string, ...interface{}) {}})
	checkFail := func(cs *vCase, in []byte, k int, together bool, chunk int) bool {
		boom := vBoomErrors[(k+chunk)%len(vBoomErrors)]
		c := c
		if k%3 == 2 {
			c = ct
		}
		res, err := c.MatchFrom(&vFailReader{data: in, k: k, together: together, chunk: chunk, err: boom})
		if err != boom {
			cs.violation("reader-error-not-returned", "reader failed after %d of %d bytes (together=%v); MatchFrom returned err=%v", k, len(in), together, err)
			return false
		}
		if len(res.Matches) != 0 || res.TotalInputLines != 0 {
			cs.violation("partial-results-with-error", "reader failed after %d of %d bytes; MatchFrom returned %s together with the error", k, len(in), vFmtRes(res))
			return false
		}
		return true
	}

	for idx, cd := range cases {
		cd := cd
		e.run(idx, cd.gen, map[string]interface{}{"input": cd.in, "lo": cd.lo, "hi": cd.hi, "style": cd.style}, func(cs *vCase) {
			r := cs.rng
			switch cd.gen {
			case "fragmentation", "fragmentation-large", "fragmentation-scenario":
				var in []byte
				switch cd.gen {
				case "fragmentation":
					in = inputs[cd.in]
				case "fragmentation-large":
					in = big[cd.in]
				default:
					in = vScenarios()[cd.in].data
				}
				cs.setInput(in)
				want := c.Match(in)
				if full := vComplete(in); full != nil {
					// the uncut file was matched just before: nothing of it may be seen now
					c.Match(full)
					e.count("cut_inputs_after_their_complete_version", 1)
				}
				rd, name := mkReader(r, in, cd.style)
				cs.params["reader"] = name
				got, err := c.MatchFrom(rd)
				if err != nil {
					cs.violation("matchfrom-error", "reader %s never fails but MatchFrom returned %v", name, err)
					return
				}
				if ok, why := vResEqual(want, got); !ok {
					cs.violation("streaming-differs", "reader %s: MatchFrom != Match on the same %d bytes: %s", name, len(in), why)
					return
				}
				e.count("fragmentations", 1)
				if len(want.Matches) > 0 {
					cs.nontrivial(cd.gen, cd.in, cd.style, in)
				}
			case "pad":
				in := inputs[cd.in]
				want := c.Match(in)
				for w := cd.lo; w <= cd.hi; w++ {
					p := append(bytes.Repeat([]byte{' '}, w), in...)
					if full := vComplete(p); full != nil && w%8 == 0 {
						c.Match(full)
					}
					got := c.Match(p)
					if ok, why := vResEqual(want, got); !ok {
						cs.setInput(p)
						cs.violation("pad-changes-result", "%d leading spaces change the result of input #%d (%d bytes): %s", w, cd.in, len(in), why)
						return
					}
					e.count("pad_widths", 1)
				}
				if len(want.Matches) > 0 {
					cs.nontrivial("pad", cd.in, cd.lo, in)
				}
			case "fail-offset":
				in := inputs[cd.in]
				cs.setInput(in)
				for k := cd.lo; k <= cd.hi; k++ {
					if !checkFail(cs, in, k, cd.style == 1, 0) {
						return
					}
					e.count("failure_offsets", 1)
				}
				cs.nontrivial("fail", cd.in, cd.lo, cd.style, in)
			case "fail-offset-sampled":
				in := big[cd.in]
				cs.setInput(in)
				for j := 0; j < 200; j++ {
					k := r.Intn(len(in) + 1)
					if j < 12 {
						k = []int{0, 1, 1019, 1020, 1021, 1023, 1024, 1025, 2040, 2044, len(in) - 1, len(in)}[j]
					}
					if k > len(in) {
						k = len(in)
					}
					if k < 0 {
						k = 0
					}
					if !checkFail(cs, in, k, cd.style == 1, []int{0, 1, 7, 1024}[j%4]) {
						return
					}
					e.count("failure_offsets_sampled", 1)
				}
				cs.nontrivial("fail-sampled", cd.in, cd.style, in)
			}
		})
	}
}
