//go:build verif

package classifier

import (
	"bytes"
	"fmt"
	"io"
	"math"
	"math/rand"
	"strings"
	"sync"
	"time"
	"testing"
	"testing/iotest"
)

// C10 — the v2 API is total on arbitrary bytes: no panic, no fatal error, no
// (double-confirmed) hang in Match, MatchFrom, Normalize, AddContent.

const vHostileKinds = 30

// vHostileBytes is the seeded, structure-aware generator of hostile inputs.
func vHostileBytes(r *rand.Rand, lic []byte, k int) []byte {
	big := func(q, th int) int { // sizes: modest by default, large when VERIF_BIG is set by the thorough tier
		if vBigInputs {
			return th
		}
		return q
	}
	rep := func(s string, n int) []byte { return []byte(strings.Repeat(s, n)) }
	switch k % vHostileKinds {
	case 0:
		return []byte{}
	case 1:
		return rep([]string{" ", "\t", "\n", " \n\t\r\n", "\r", "\v\f "}[r.Intn(6)], 1+r.Intn(300))
	case 2:
		return rep([]string{"// ", "# \n", " * \n", "-- \n", ">>> |\n", "%%%\n;;;\n", "*\n"}[r.Intn(7)], 1+r.Intn(200))
	case 3:
		return bytes.Repeat([]byte{0}, 1+r.Intn(5000))
	case 4:
		b := byte(k / vHostileKinds)
		return bytes.Repeat([]byte{b}, []int{1, 2, 3, 5, 1023, 1024, 1025, 2050}[r.Intn(8)])
	case 5: // invalid / overlong / truncated UTF-8 between words
		frag := [][]byte{{0xff}, {0xfe, 0xff}, {0xc0, 0xaf}, {0xe0, 0x80, 0xaf}, {0xf0, 0x9f, 0x98}, {0xe2, 0x80}, {0xc3}, {0xf8, 0x88, 0x80, 0x80, 0x80}, {0xed, 0xa0, 0x80}, {0xef, 0xbb, 0xbf}, {0xf4, 0x90, 0x80, 0x80}}
		var b bytes.Buffer
		words := strings.Fields(string(lic))
		for i := 0; i < 200 && i < len(words); i++ {
			if r.Intn(3) == 0 {
				b.Write(frag[r.Intn(len(frag))])
			}
			b.WriteString(words[i])
			if r.Intn(4) == 0 {
				b.Write(frag[r.Intn(len(frag))])
			}
			b.WriteByte(" \n\t"[r.Intn(3)])
		}
		b.Write(frag[r.Intn(len(frag))][:1])
		return b.Bytes()
	case 6: // BOM, surrogates, non-characters
		return []byte("\xef\xbb\xbf" + string(lic[:vMin(len(lic), 400)]) + "\xed\xa0\x80\xed\xb0\x80 \xef\xbf\xbe \xef\xbf\xbf\n")
	case 7:
		return []byte(strings.ReplaceAll(string(lic[:vMin(len(lic), 2000)]), "\n", "\r"))
	case 8: // one very long line
		w := strings.Fields(string(lic))
		if len(w) == 0 {
			w = []string{"x"}
		}
		var b bytes.Buffer
		for b.Len() < big(40_000, 1<<20) {
			b.WriteString(w[r.Intn(len(w))])
			b.WriteByte(' ')
		}
		return b.Bytes()
	case 9: // very many short lines
		var b bytes.Buffer
		n := big(5_000, 200_000)
		for i := 0; i < n; i++ {
			b.WriteString([]string{"a\n", "\n", "the\n", "1.\n", "-\n", "x y\n"}[r.Intn(6)])
		}
		return b.Bytes()
	case 10:
		return rep("a-\n", big(2_000, 10_000))
	case 11:
		return rep([]string{"-\n", "--\n-\n", "a-\n-\n", "-\n \n-", "‐\n"}[r.Intn(5)], 1+r.Intn(big(800, 5000)))
	case 12: // hyphen immediately before EOF, with and without spaces
		return []byte(string(lic[:vMin(len(lic), 300)]) + []string{" foo-", " foo-\n", " foo- \n ", "-", " a-\n\n", "foo-\n   "}[r.Intn(6)])
	case 13: // HTML entities
		ents := []string{"&#0;", "&#xD800;", "&amp;amp;", "&#x10FFFF;", "&#1114112;", "&unknownentity;", "&", "&#", "&#x", "&lt", "&copy;", "&#169;", "&nbsp;", "&#x0a;", "&#10;", "&NewLine;", "&#xfffffffff;", "&amp", "&;",
			// references that decode to punctuation only, to blanks, to word-start characters
			"&#41;", "&#46;", "&#58;", "&period;", "&colon;", "&rpar;", "&lpar;", "&#x29;", "&#45;", "&hyphen;", "&dash;", "&comma;", "&#32;", "&#9;", "&Tab;", "&excl;", "&quot;", "&apos;", "&num;", "&ast;", "&sol;",
			"&#47;&#47;", "1&period;", "a&rpar;", "&lpar;a&rpar;", "&#49;&#46;", "&#38;", "&#38;#41;", "&#40;", "&semi;", "&#x2010;", "&#8208;", "&mdash;", "&shy;", "&#173;", "&zwnj;", "&#65279;"}
		var b bytes.Buffer
		for i := 0; i < 1+r.Intn(120); i++ {
			b.WriteString(ents[r.Intn(len(ents))])
			b.WriteString([]string{"", " ", "x", "\n", "copyright ", " \n", "\n\n"}[r.Intn(7)])
		}
		return b.Bytes()
	case 14:
		return rep([]string{"(", "&", "((", "(&", "&(", "( ", "&\n", "(c)", "(c) "}[r.Intn(9)], 1+r.Intn(2000))
	case 15: // digit / dot / dash tokens
		var b bytes.Buffer
		for i := 0; i < 1+r.Intn(300); i++ {
			b.WriteString([]string{"1", "1.", "1.2.3", "...", "3-", "-3", "1..", "2.0-", "0x1f", "1e9", "1,000.00", "٣", "１２", "½", "1.-", "1-.-."}[r.Intn(16)])
			b.WriteByte(" \n"[r.Intn(2)])
		}
		return b.Bytes()
	case 16: // header look-alikes alone on lines
		var b bytes.Buffer
		for i := 0; i < 1+r.Intn(200); i++ {
			h := []string{"1.", "a.", "1.2.3.", "iv.", "A)", "ii:", ":", ".", ")", "a)", "xv.", "1.a.", "(a)", "(1)", "1)", "..:"}[r.Intn(16)]
			if k/vHostileKinds%2 == 1 || r.Intn(3) == 0 {
				h = vEntEncode(r, h)
			}
			b.WriteString(h)
			b.WriteString([]string{"\n", " \n", " x\n", "\n\n"}[r.Intn(4)])
		}
		return b.Bytes()
	case 17: // notice look-alikes
		var b bytes.Buffer
		for i := 0; i < 1+r.Intn(100); i++ {
			b.WriteString([]string{"Copyright", "Copyright 2020", "copyright (c) 2020", "Copyright (c) [dates of first publication]", "Copyright [yyyy]", "xxxxx copyright 1999.", "2020-01-01", "2020-jan-01", "2020-13-99x", "copyright (c) ", "©2020 Foo", "Copyright \xff 2020", "Copyright 20٢٠"}[r.Intn(13)])
			b.WriteString([]string{"\n", " \n", " x\n", "-\n"}[r.Intn(4)])
		}
		return b.Bytes()
	case 18: // license with byte flips
		b := append([]byte{}, lic...)
		for i := 0; i < 1+len(b)/40; i++ {
			if len(b) > 0 {
				b[r.Intn(len(b))] = byte(r.Intn(256))
			}
		}
		return b
	case 19: // halves of the license spliced at arbitrary byte positions
		if len(lic) < 4 {
			return lic
		}
		a, c := r.Intn(len(lic)), r.Intn(len(lic))
		return append(append([]byte{}, lic[a:]...), lic[:c]...)
	case 20: // the license repeated
		n := 2 + r.Intn(big(6, 50))
		return bytes.Repeat(append(append([]byte{}, lic[:vMin(len(lic), 3000)]...), '\n'), n)
	case 21: // token shuffle
		w := strings.Fields(string(lic))
		r.Shuffle(len(w), func(i, j int) { w[i], w[j] = w[j], w[i] })
		return []byte(strings.Join(w, " "))
	case 22: // a prefix or suffix of the license, cut at any byte
		if len(lic) == 0 {
			return lic
		}
		n := r.Intn(len(lic) + 1)
		if r.Intn(2) == 0 {
			return append([]byte{}, lic[:n]...)
		}
		return append([]byte{}, lic[n:]...)
	case 23: // random bytes
		b := make([]byte, 1+r.Intn(3000))
		r.Read(b)
		return b
	case 24: // random bytes from a small hostile alphabet
		al := []byte("a-\n &(.:)1\r\t\xff\xe2\x80\x90*c")
		b := make([]byte, 1+r.Intn(3000))
		for i := range b {
			b[i] = al[r.Intn(len(al))]
		}
		return b
	case 25: // multi-byte runes placed around the 1020/1024 buffer edges
		pad := 1015 + r.Intn(12)
		ru := []string{"é", "—", "漢", "😀", "\xe2\x80", "\xf0\x9f", "‐\n"}[r.Intn(7)]
		return []byte(strings.Repeat("a", pad) + ru + " " + string(lic[:vMin(len(lic), 1200)]) + ru)
	case 26: // words joined by the mapped punctuation
		w := strings.Fields(string(lic))
		var b bytes.Buffer
		for i := 0; i < len(w) && i < 400; i++ {
			b.WriteString(w[i])
			b.WriteString([]string{" ", "·", "*", "©", "§", "¤", "—", "‐\n", " "}[r.Intn(9)])
		}
		return b.Bytes()
	case 27: // only a notice / only one word / word at the size of q
		return []byte([]string{"Copyright 2020 X", "license", "the", "a b c d", "2020-01-01", "1.", "x-", "(", "&", "a\n"}[r.Intn(10)])
	case 28: // the license with every line ending in a hyphen
		return []byte(strings.ReplaceAll(string(lic[:vMin(len(lic), 4000)]), "\n", "-\n"))
	default: // concatenation of several hostile fragments
		var b bytes.Buffer
		for i := 0; i < 2+r.Intn(4); i++ {
			kk := r.Intn(vHostileKinds - 1)
			if kk == 8 || kk == 9 {
				kk = 13
			}
			f := vHostileBytes(r, lic, kk)
			if len(f) > 3000 {
				f = f[:3000]
			}
			b.Write(f)
		}
		return b.Bytes()
	}
}

// vEntEncode writes some characters of s as HTML character references.
func vEntEncode(r *rand.Rand, s string) string {
	named := map[rune]string{'.': "&period;", ':': "&colon;", ')': "&rpar;", '(': "&lpar;"}
	var sb strings.Builder
	for _, c := range s {
		switch r.Intn(4) {
		case 0:
			fmt.Fprintf(&sb, "&#%d;", c)
		case 1:
			fmt.Fprintf(&sb, "&#x%x;", c)
		case 2:
			if n, ok := named[c]; ok {
				sb.WriteString(n)
			} else {
				sb.WriteRune(c)
			}
		default:
			sb.WriteRune(c)
		}
	}
	return sb.String()
}

var vBigInputs = false

func vMin(a, b int) int {
	if a < b {
		return a
	}
	return b
}

// chunkReader delivers data in seeded chunk sizes.
type vChunkReader struct {
	data []byte
	r    *rand.Rand
	max  int
}

func (c *vChunkReader) Read(p []byte) (int, error) {
	if len(c.data) == 0 {
		return 0, io.EOF
	}
	n := 1 + c.r.Intn(c.max)
	if n > len(p) {
		n = len(p)
	}
	if n > len(c.data) {
		n = len(c.data)
	}
	copy(p, c.data[:n])
	c.data = c.data[n:]
	return n, nil
}

var (
	vNormMu  sync.Mutex
	vNormCls = map[float64]*Classifier{}
)

// vWithNormClassifier runs f with a classifier over the embedded corpus that is
// dedicated to calls which modify the dictionary (Normalize); calls are
// serialised because Normalize is not specified to be goroutine safe.
func vWithNormClassifier(t testing.TB, thr float64, f func(c *Classifier)) {
	vNormMu.Lock()
	defer vNormMu.Unlock()
	c, ok := vNormCls[thr]
	if !ok {
		c = vBuild(thr, vCorpus(t))
		vNormCls[thr] = c
	}
	f(c)
}

func TestVerifC10(t *testing.T) {
	e := vStart(t, "C10")
	defer e.finish()
	docs := vCorpus(t)
	vBigInputs = !e.quick()
	var small []int
	for i, d := range docs {
		if len(d.raw) <= 2500 && len(d.raw) > 200 {
			small = append(small, i)
		}
	}
	thrs := []float64{0, 1e-9, 0.01, 0.3, 0.5, 0.8, 0.99, 1.0, 1 - 1e-12, math.Nextafter(1, 0), 0.999999, 0.6666666666666666, 0.75}
	corpora := []string{"empty", "empty-docs", "one-word-docs", "small-synthetic", "repetitive", "embedded", "embedded", "embedded"}

	n := e.pick(6000, 300000)
	for idx := 0; idx < n; idx++ {
		idx := idx
		kind := idx % vHostileKinds
		sub := idx / vHostileKinds
		thr := thrs[sub%len(thrs)]
		corpus := corpora[(sub/len(thrs))%len(corpora)]
		// single byte values: make sure all 256 are covered
		k := kind
		if kind == 4 {
			k = 4 + vHostileKinds*(sub%256)
		}
		e.run(idx, fmt.Sprintf("hostile-%d", kind), map[string]interface{}{"thr": thr, "corpus": corpus, "k": k}, func(cs *vCase) {
			r := cs.rng
			lic := docs[small[r.Intn(len(small))]].raw
			if r.Intn(6) == 0 {
				lic = docs[r.Intn(len(docs))].raw
			}
			in := vHostileBytes(r, lic, k)
			// cost model (DESIGN §0): with the full corpus, thresholds < 0.65 only see small inputs
			in = vCap(in, vCostCap(thr, corpus == "embedded"))
			if corpus == "repetitive" && len(in) > 20000 {
				in = in[:20000]
			}
			if corpus == "small-synthetic" && len(in) > 200000 {
				// the license itself is a corpus document here: keep self-similar megabyte
				// inputs for the embedded and the degenerate corpora
				in = in[:200000]
			}
			var skew []string
			if corpus == "repetitive" {
				voc := []string{"alpha", "beta", "gamma", "delta", "epsilon", "zeta", "eta", "theta", "iota", "kappa", "lambda", "mu", "nu", "xi", "omicron"}
				nd := 2 + r.Intn(len(voc)-2)
				head := strings.Join(voc[:nd], " ")
				rp := strings.Repeat([]string{" omega", " omega psi", " a"}[r.Intn(3)], 5+r.Intn(200))
				var doc string
				switch r.Intn(3) {
				case 0:
					doc = head + rp
				case 1:
					doc = strings.TrimSpace(rp) + " " + head
				default:
					doc = strings.Join(voc[:nd/2], " ") + rp + " " + strings.Join(voc[nd/2:nd], " ")
				}
				w := strings.Fields(doc)
				lo := r.Intn(len(w))
				part := strings.Join(w[lo:lo+r.Intn(len(w)-lo)+1], " ")
				skew = []string{doc, head + strings.Repeat(" omega", r.Intn(4)), part}
				if r.Intn(2) == 0 {
					in = []byte(skew[1+r.Intn(2)] + "\n" + string(in[:vMin(len(in), 200)]))
				}
			}
			cs.hostileInput(in)
			var c *Classifier
			switch corpus {
			case "embedded":
				c = vClassifier(t, thr)
			case "empty":
				c = NewClassifier(thr)
			case "empty-docs":
				c = NewClassifier(thr)
				c.AddContent("License", "Empty", "a.txt", nil)
				c.AddContent("License", "Blank", "b.txt", []byte(" \n\n"))
				c.AddContent("Header", "Notice", "c.txt", []byte("Copyright 2020 X\n"))
			case "one-word-docs":
				c = NewClassifier(thr)
				c.AddContent("License", "One", "a.txt", []byte("license"))
				c.AddContent("License", "A", "b.txt", []byte("a"))
				c.AddContent("License", "Two", "c.txt", []byte("the license"))
			case "small-synthetic":
				c = NewClassifier(thr)
				for _, d := range vSynthCorpus(r, 30, 6, 60) {
					seg := strings.Split(d.key, "/")
					c.AddContent(seg[0], seg[1], seg[2], []byte(d.text))
				}
				c.AddContent("License", "Lic", "l.txt", vCap(lic, vCostCap(thr, false)))
			case "repetitive":
				c = NewClassifier(thr)
				c.AddContent("License", "R1", "a.txt", []byte(strings.Repeat("a b ", 60)))
				c.AddContent("License", "R2", "b.txt", []byte(strings.Repeat("a ", 150)))
				c.AddContent("License", "R3", "c.txt", []byte(strings.Repeat("a-\n", 80)))
				// a document dominated by one repeated word (a table, a signature block)
				// and inputs that hold its distinct words but far fewer tokens
				if skew != nil {
					c.AddContent("License", "Skewed", "d.txt", []byte(skew[0]))
					c.Match([]byte(skew[1]))
					c.Match([]byte(skew[2]))
					e.count("match_calls", 2)
				}
			}
			sha := vSha(in)
			c.Match(in)
			e.count("match_calls", 1)
			var rd io.Reader
			switch r.Intn(4) {
			case 0:
				rd = iotest.OneByteReader(bytes.NewReader(in))
			case 1:
				rd = iotest.DataErrReader(bytes.NewReader(in))
			case 2:
				rd = &vChunkReader{data: in, r: r, max: 7}
			default:
				rd = &vChunkReader{data: in, r: r, max: 2000}
			}
			if len(in) > 100000 {
				rd = &vChunkReader{data: in, r: r, max: 5000}
			}
			if _, err := c.MatchFrom(rd); err != nil {
				cs.violation("matchfrom-error", "MatchFrom returned %v for a reader that never fails", err)
				return
			}
			e.count("matchfrom_calls", 1)
			if corpus == "embedded" {
				vWithNormClassifier(t, thr, func(nc *Classifier) { nc.Normalize(in) })
			} else {
				c.Normalize(in)
			}
			e.count("normalize_calls", 1)
			// the hostile bytes as a corpus document, matched against themselves: capped,
			// because self-matching a low-vocabulary text is quadratic in its length
			fin := in[:vMin(len(in), 20000)]
			flic := vCap(lic, vCostCap(thr, false))
			fin = vCap(fin, vCostCap(thr, false))
			fresh := NewClassifier(thr)
			// one case in five registers the documents under unusual (category, name,
			// variant) strings - empty, dots, separators: a match names its document
			// through them
			cat, nm1, nm2, vr := "License", "Hostile", "Lic", "h.txt"
			if idx%5 == 3 {
				odd := []string{"", ".", "..", "a/b", "/", "x\\y", " ", "é", "License/MIT", "-"}
				cat, nm1, vr = odd[r.Intn(len(odd))], odd[r.Intn(len(odd))], odd[r.Intn(len(odd))]
				nm2 = nm1 + "2"
				cs.params["names"] = []string{cat, nm1, vr}
				e.count("addcontent_unusual_names", 1)
			}
			fresh.AddContent(cat, nm1, vr, fin)
			fresh.AddContent(cat, nm2, "l.txt", flic)
			fresh.Match(fin)
			fresh.Match(flic)
			fresh.Normalize(fin)
			e.count("addcontent_calls", 2)
			if vSha(in) != sha {
				cs.violation("input-modified", "the input byte slice was modified by an API call")
				return
			}
			cs.nontrivial(in, thr, corpus)
		})
	}

	// bounded progress on megabyte-long lines: the same words as ONE line must not
	// cost an order of magnitude more than on lines of ten words. Both are timed
	// back to back in this process (these cases are serialised among themselves), the
	// verdict is about their RATIO, the slow one has to exceed 4 s as well, and a
	// difference is confirmed by a second measurement - a loaded machine slows both.
	for k := 0; k < e.pick(2, 6); k++ {
		k := k
		e.run(n+k, "long-line-progress", map[string]interface{}{"k": k}, func(cs *vCase) {
			vProgressMu.Lock()
			defer vProgressMu.Unlock()
			r := cs.rng
			nw := []int{300000, 450000, 250000, 600000, 350000, 500000}[k%6]
			words := make([]string, nw)
			for i := range words {
				words[i] = []string{"the", "software", "zq" + vOOVWord(r), "license", "a", "of", "copyright", "1.", "x-y"}[r.Intn(9)]
			}
			one := []byte(strings.Join(words, " ") + "\n")
			var sb strings.Builder
			for i, w := range words {
				sb.WriteString(w)
				if i%10 == 9 {
					sb.WriteByte('\n')
				} else {
					sb.WriteByte(' ')
				}
			}
			many := []byte(sb.String())
			c := NewClassifier(0.8)
			c.AddContent("License", "One", "a.txt", []byte("the license of the software is a license"))
			measure := func() (float64, float64) {
				t0 := time.Now()
				c.Match(many)
				c.Normalize(many)
				tm := time.Since(t0).Seconds()
				t0 = time.Now()
				c.Match(one)
				c.Normalize(one)
				return tm, time.Since(t0).Seconds()
			}
			tm, to := measure()
			cs.observe("seconds_many_lines", tm)
			cs.observe("seconds_one_line", to)
			cs.observe("words", nw)
			if to > 4 && to > 15*tm {
				tm2, to2 := measure()
				if to2 > 4 && to2 > 15*tm2 {
					cs.violation("superlinear-in-line-length", "%d words (%d bytes): Match+Normalize take %.1fs / %.1fs when they are one line, %.1fs / %.1fs on lines of ten words", nw, len(one), to, to2, tm, tm2)
					return
				}
			}
			e.count("long_line_progress_pairs", 1)
			cs.nontrivial("progress", k)
		})
	}
}

var vProgressMu sync.Mutex
