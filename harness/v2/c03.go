//go:build verif

package classifier

import (
	"bytes"
	"fmt"
	"math/rand"
	"strings"
	"testing"
)

// C03 — nothing below the threshold is reported; every result is well formed.

// vWellFormed checks the invariants of C03 on one result. added is the set of
// category/name/variant keys the harness put into the corpus.
func vWellFormed(c *Classifier, thr float64, in []byte, res Results, added map[string]bool) (string, string) {
	nlines := bytes.Count(in, []byte("\n")) + 1
	ntok := len(vTokens(c, in))
	if res.TotalInputLines < 0 || res.TotalInputLines > nlines {
		return "total-lines", fmt.Sprintf("TotalInputLines=%d but the input has %d lines", res.TotalInputLines, nlines)
	}
	prev := 2.0
	for i, m := range res.Matches {
		if m.Confidence > prev {
			return "order", fmt.Sprintf("match %d (%s) has higher confidence than its predecessor (%v)", i, vConv(m), prev)
		}
		prev = m.Confidence
		if m.MatchType == "Copyright" {
			if m.Confidence != 1.0 || m.StartLine != m.EndLine || m.StartLine < 1 || m.StartLine > nlines {
				return "copyright-shape", fmt.Sprintf("%s (input has %d lines)", vConv(m), nlines)
			}
			continue
		}
		if !(m.Confidence >= thr && m.Confidence <= 1.0) {
			return "confidence-range", fmt.Sprintf("%s with threshold %v", vConv(m), thr)
		}
		if !added[vKey(m)] {
			return "unknown-triple", fmt.Sprintf("%s was never added to the corpus", vConv(m))
		}
		if !(1 <= m.StartLine && m.StartLine <= m.EndLine && m.EndLine <= res.TotalInputLines) {
			return "line-range", fmt.Sprintf("%s with TotalInputLines=%d", vConv(m), res.TotalInputLines)
		}
		if !(0 <= m.StartTokenIndex && m.StartTokenIndex <= m.EndTokenIndex && m.EndTokenIndex < ntok) {
			return "token-range", fmt.Sprintf("%s with %d input words", vConv(m), ntok)
		}
	}
	return "", ""
}

func vAddedSet(docs []vDoc) map[string]bool {
	s := map[string]bool{}
	for _, d := range docs {
		s[d.key] = true
	}
	return s
}

func TestVerifC03(t *testing.T) {
	e := vStart(t, "C03")
	defer e.finish()
	docs := vCorpus(t)
	added := vAddedSet(docs)

	type cdesc struct {
		gen   string
		milli int
		doc   int
		k     int
	}
	var cases []cdesc
	rr := rand.New(rand.NewSource(e.seed*15485863 + 3))
	lows := []int{10, 100, 300, 500}
	highs := []int{650, 800, 900, 990, 1000}
	var small []int
	for i, d := range docs {
		if len(d.raw) <= 2500 {
			small = append(small, i)
		}
	}
	n := e.pick(140, 3000)
	for k := 0; k < n; k++ {
		cases = append(cases, cdesc{"low-threshold-small", lows[k%len(lows)], small[rr.Intn(len(small))], k})
	}
	n = e.pick(500, 12000)
	for k := 0; k < n; k++ {
		cases = append(cases, cdesc{"base", highs[k%len(highs)], rr.Intn(len(docs)), k})
	}
	n = e.pick(200, 5000)
	for k := 0; k < n; k++ {
		cases = append(cases, cdesc{"hostile", append(lows, highs...)[k%9], small[rr.Intn(len(small))], k})
	}
	n = e.pick(30, 600)
	for k := 0; k < n; k++ {
		cases = append(cases, cdesc{"synthetic", append(lows, highs...)[k%9], 0, k})
	}
	n = e.pick(300, 6000)
	for k := 0; k < n; k++ {
		cases = append(cases, cdesc{"hyphen-layout", highs[k%len(highs)], rr.Intn(len(docs)), k})
	}

	for idx, cd := range cases {
		cd := cd
		thr := float64(cd.milli) / 1000
		e.run(idx, cd.gen, map[string]interface{}{"thr": thr, "doc": cd.doc, "k": cd.k}, func(cs *vCase) {
			r := cs.rng
			judge := func(c *Classifier, in []byte, add map[string]bool) bool {
				res := c.Match(in)
				if kind, det := vWellFormed(c, thr, in, res, add); kind != "" {
					cs.setInput(in)
					cs.violation(kind, "thr=%v: %s; result: %s", thr, det, vFmtRes(res))
					return false
				}
				nl := 0
				for _, m := range res.Matches {
					if m.MatchType != "Copyright" {
						nl++
					}
				}
				e.count("matches_checked", int64(len(res.Matches)))
				if len(res.Matches) > 0 {
					cs.nontrivial(in, cd.milli)
				}
				return true
			}
			switch cd.gen {
			case "low-threshold-small":
				c := vClassifier(t, thr)
				d := docs[cd.doc]
				text := vOOVBlock(r, r.Intn(3)) + vWithNL(vMutate(r, string(d.raw), []float64{0, 0.1, 0.3, 0.5}[r.Intn(4)], vVocab(c))) + vOOVBlock(r, r.Intn(3))
				in := vCap([]byte(text), vCostCap(thr, true))
				cs.setInput(in)
				judge(c, in, added)
			case "base":
				c := vClassifier(t, thr)
				b := vMakeBase(r, r.Intn(5), docs, cd.doc, vVocab(c))
				if r.Intn(3) == 0 {
					b.text = vSpice(r, b.text, 10+r.Intn(40))
				}
				in := []byte(b.text)
				if r.Intn(4) == 0 {
					// notice lines and blank lines sprinkled in: exercises Copyright entries
					in = []byte(vInsertNotices(r, b.text, 1+r.Intn(4)))
				}
				cs.setInput(in)
				judge(c, in, added)
			case "hyphen-layout":
				// hyphen-ended lines followed by blank / whitespace-only / hyphen-only lines,
				// with the license text running to the very end of the input (so that a
				// match's EndLine and TotalInputLines sit at the last physical line)
				c := vClassifier(t, thr)
				d := docs[cd.doc]
				for len(d.raw) > 20000 {
					d = docs[r.Intn(len(docs))]
				}
				lines := strings.Split(strings.TrimRight(string(d.raw), "\n"), "\n")
				var out []string
				if r.Intn(2) == 0 {
					out = append(out, strings.Split(strings.TrimRight(vOOVBlock(r, 1+r.Intn(2)), "\n"), "\n")...)
				}
				for _, l := range lines {
					if strings.TrimSpace(l) != "" && r.Intn(5) == 0 {
						out = append(out, strings.TrimRight(l, " \t\r")+"-")
						switch r.Intn(5) {
						case 0:
							out = append(out, "")
						case 1:
							out = append(out, "   ")
						case 2:
							out = append(out, "", "")
						case 3:
							out = append(out, "\t", "-")
						}
						continue
					}
					out = append(out, l)
				}
				text := strings.Join(out, "\n")
				if r.Intn(2) == 0 {
					text += "\n"
				}
				in := []byte(text)
				cs.setInput(in)
				judge(c, in, added)
			case "hostile":
				c := vClassifier(t, thr)
				in := vHostileBytes(r, docs[cd.doc].raw, cd.k)
				in = vCap(in, vCostCap(thr, true))
				cs.hostileInput(in)
				judge(c, in, added)
			case "synthetic":
				nvi := r.Intn(5)
				nv := []int{5, 12, 50, 300, 2000}[nvi]
				maxLen := []int{12, 40, 150, 600}[r.Intn([]int{2, 2, 3, 4, 4}[nvi])]
				if thr < 0.65 && maxLen > 150 {
					maxLen = 150
				}
				sd := vSynthCorpus(r, nv, 12, maxLen)
				c := NewClassifier(thr)
				add := map[string]bool{}
				// degenerate but legal triples (no path separator in any part): empty parts,
				// ".", "..", parts with spaces and dots
				odd := [][3]string{{"License", "NoVariant", ""}, {"", "NoCategory", "v.txt"}, {"License", ".", "dot.txt"}, {"License", "..", "x"}, {"Header", "a b", "c d.txt"}, {"License", "", ""}, {"X.Y", "n..m", ".hidden"}, {"License", "100%-free", "v%d.txt"}, {"Lic%s", "%v", "%"}, {"Vendor\\Custom", "back\\slash", "v\\1.txt"}}
				for i := range sd {
					if i < len(odd) && r.Intn(2) == 0 {
						sd[i].key = odd[i][0] + "/" + odd[i][1] + "/" + odd[i][2]
					}
				}
				for _, d := range sd {
					seg := strings.SplitN(d.key, "/", 3)
					c.AddContent(seg[0], seg[1], seg[2], []byte(d.text))
					add[d.key] = true
				}
				// registering a triple a second time replaces its text: the triple set stays the same
				if len(sd) > 2 {
					nd := vSynthCorpus(r, nv, 1, maxLen)[0]
					seg := strings.SplitN(sd[1].key, "/", 3)
					c.AddContent(seg[0], seg[1], seg[2], []byte(nd.text))
					sd[1].text, sd[1].words = nd.text, nd.words
				}
				vocab := vVocab(c)
				for _, d := range sd {
					text := vOOVBlock(r, r.Intn(3)) + vMutate(r, d.text, []float64{0, 0.05, 0.2, 0.5}[r.Intn(4)], vocab) + vOOVBlock(r, r.Intn(3))
					if !judge(c, []byte(text), add) {
						return
					}
				}
			}
		})
	}
}

var vNoticeTemplates = []string{
	"Copyright (c) %d %s",
	"Copyright %d, %s",
	"Copyright (C) %d-2020 %s. All rights reserved.",
	"(c) Copyright %d %s",
	"// Copyright %d %s",
	" * Copyright (c) %d %s",
	"# Copyright %d %s",
	"copyright (c) %d %s",
	"COPYRIGHT %d %s",
	"版权 Copyright (c) %d %s",
	"Авт. Copyright %d, %s",
	"ⓒ© Copyright %d %s",
}

var vDateTemplates = []string{"%d-03-17", "%d-Jan-05", "%d-dec-31"}

func vNoticeLine(r *rand.Rand) string {
	names := []string{"Example Corp", "J. Random Hacker", "The Frobnitz Authors", "ACME, Inc.", "Jane Doe <jane@example.com>"}
	if r.Intn(5) == 0 {
		return fmt.Sprintf(vDateTemplates[r.Intn(len(vDateTemplates))], 1990+r.Intn(35))
	}
	return fmt.Sprintf(vNoticeTemplates[r.Intn(len(vNoticeTemplates))], 1990+r.Intn(35), names[r.Intn(len(names))])
}

func vEndsHyphen(line string) bool {
	t := strings.TrimRight(line, " \t\r")
	for _, h := range []string{"-", "‒", "–", "—", "‐"} {
		if strings.HasSuffix(t, h) {
			return true
		}
	}
	return false
}

// vInsertNotices inserts n notice/date lines between lines (never directly
// after a hyphen-ended line).
func vInsertNotices(r *rand.Rand, text string, n int) string {
	lines := strings.Split(text, "\n")
	for i := 0; i < n; i++ {
		pos := r.Intn(len(lines))
		if pos > 0 && vEndsHyphen(lines[pos-1]) {
			continue
		}
		lines = append(lines[:pos], append([]string{vNoticeLine(r)}, lines[pos:]...)...)
	}
	return strings.Join(lines, "\n")
}
