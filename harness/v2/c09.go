//go:build verif

package classifier

import (
	"bytes"
	"crypto/sha256"
	"encoding/binary"
	"fmt"
	"math/rand"
	"os"
	"sort"
	"strings"
	"sync"
	"sync/atomic"
	"testing"
	"testing/iotest"
	"time"
)

// C09 — one classifier can be matched against from many goroutines at once.
//
// Monitors: (1) the Go race detector (this harness is built with -race; the
// driver parses the GORACE log files); (2) differential: every concurrent
// result equals the result of the same call made alone before the storm;
// (3) corpus canary: a hash over every document's tokens, runes and the
// dictionary before and after the storm.

func vCorpusCanary(c *Classifier) [32]byte {
	h := sha256.New()
	keys := make([]string, 0, len(c.docs))
	for k := range c.docs {
		keys = append(keys, k)
	}
	sort.Strings(keys)
	var b [8]byte
	wr := func(n int64) {
		binary.LittleEndian.PutUint64(b[:], uint64(n))
		h.Write(b[:])
	}
	for _, k := range keys {
		d := c.docs[k]
		h.Write([]byte(k))
		wr(int64(len(d.Tokens)))
		for _, t := range d.Tokens {
			wr(int64(t.ID))
			wr(int64(t.Line))
		}
		wr(int64(len(d.runes)))
		for _, r := range d.runes {
			wr(int64(r))
		}
		h.Write([]byte(d.Norm))
		if d.s != nil {
			wr(int64(len(d.s.Tokens)))
			wr(int64(len(d.s.Hashes)))
			wr(int64(len(d.s.Checksums)))
			for _, cs := range d.s.Checksums {
				wr(int64(cs))
			}
		}
		if d.f != nil {
			wr(int64(len(d.f.counts)))
		}
	}
	wr(int64(len(c.dict.words)))
	wr(int64(len(c.dict.indices)))
	var out [32]byte
	copy(out[:], h.Sum(nil))
	return out
}

// vTwoEdits plants two far-apart edits into a document: this drives go-diff
// into its half-match path against the shared corpus document.
func vTwoEdits(r *rand.Rand, raw string) string {
	w := strings.Fields(raw)
	if len(w) < 40 {
		return raw
	}
	w[len(w)/10+r.Intn(5)] = vOOVWord(r)
	w[len(w)*9/10-r.Intn(5)] = vOOVWord(r)
	return strings.Join(w, " ")
}

// vNovelize replaces some words by tokens the corpus has never seen, in many
// shapes (version numbers after the word "version", years, dotted numbers,
// hyphenated identifiers): any path on which Match records something about new
// words in shared state is exercised.
func vNovelize(r *rand.Rand, raw string) string {
	w := strings.Fields(raw)
	for i := range w {
		lw := strings.ToLower(strings.Trim(w[i], ".,;:()"))
		if lw == "version" && i+1 < len(w) {
			w[i+1] = fmt.Sprintf("%d.%d", 90+r.Intn(9), r.Intn(10))
			continue
		}
		if r.Intn(25) == 0 {
			w[i] = []string{fmt.Sprintf("%d.%d.%d", 40+r.Intn(50), r.Intn(10), r.Intn(10)), fmt.Sprint(2031 + r.Intn(60)), "v" + fmt.Sprint(12+r.Intn(80)) + ".7", vOOVWord(r), "x86-" + fmt.Sprint(65+r.Intn(30)), "Version", fmt.Sprintf("%d.%d", 90+r.Intn(9), r.Intn(10))}[r.Intn(7)]
		}
	}
	return strings.Join(w, " ")
}

// vFreshCtr numbers the never-seen words of a process.
var vFreshCtr int64

func TestVerifC09(t *testing.T) {
	e := vStart(t, "C09")
	defer e.finish()
	e.everyShard = true
	docs := vCorpus(t)
	thr := 0.8
	// ref answers the sequential reference calls only; every storm runs on a FRESH
	// classifier that has never been matched against, so that state which is
	// initialised lazily on first use is first touched concurrently
	ref := vBuild(thr, docs)
	mode := os.Getenv("VERIF_C09_MODE") // race | plain
	gs := []int{2, 8, 16}
	if mode == "plain" {
		gs = []int{64, 256}
	}
	byKey := map[string]string{}
	var large []string
	for _, d := range docs {
		byKey[d.key] = string(d.raw)
		if len(d.raw) > 9000 && len(d.raw) < 40000 {
			large = append(large, d.key)
		}
	}
	sort.Strings(large)
	rounds := e.pick(6, 24)
	for idx := 0; idx < rounds; idx++ {
		idx := idx
		G := gs[idx%len(gs)]
		e.run(idx, fmt.Sprintf("storm-G%d", G), map[string]interface{}{"G": G, "mode": mode, "process": e.shard}, func(cs *vCase) {
			// the PRNG also depends on the process (shard) so that repeats differ
			r := rand.New(rand.NewSource(vCaseSeed(e.seed*131+int64(e.shard), "C09", idx)))
			// a small shared input set aimed at one corpus document at a time
			target := []string{"License/Apache-2.0/pristine.txt", "License/GPL-2.0/license.txt", "License/MPL-2.0/license.txt", "License/MIT/pristine.txt"}[idx%4]
			if _, ok := byKey[target]; !ok || idx%5 == 4 {
				target = large[r.Intn(len(large))]
			}
			raw := byKey[target]
			var inputs [][]byte
			for k := 0; k < 3; k++ {
				inputs = append(inputs, []byte(vOOVBlock(r, 1)+vWithNL(vTwoEdits(r, raw))+vOOVBlock(r, 1)))
			}
			inputs = append(inputs, []byte(vOOVBlock(r, 2)+vWithNL(raw)))
			inputs = append(inputs, []byte(vWithNL(vNovelize(r, raw))), []byte("This is version 97."+fmt.Sprint(r.Intn(10))+" of the file\n"+vWithNL(vNovelize(r, byKey["License/Apache-2.0/pristine.txt"]))))
			li := r.Intn(len(large))
			if idx%3 == 2 {
				// every third storm (the G=16 / G=256 ones): the LONGEST of the large licenses,
				// so that size-dependent paths of scoring (several thousand tokens on both
				// sides) are in flight in every process, not only when the draw finds them
				for j := range large {
					if len(byKey[large[j]]) > len(byKey[large[li]]) {
						li = j
					}
				}
			}
			inputs = append(inputs, []byte(vWithNL(byKey[large[li]])))
			sc := vScenarios()
			inputs = append(inputs, sc[r.Intn(len(sc))].data)
			// CR LF line endings: the SAME byte slice is handed to many goroutines, so any
			// in-place clean-up of the argument is a write to shared memory
			inputs = append(inputs, []byte(strings.ReplaceAll(vOOVBlock(r, 1)+vWithNL(vTwoEdits(r, raw)), "\n", "\r\n")))

			cs.params["target"] = target
			// sequential reference results, computed alone on the twin classifier
			want := make([]Results, len(inputs))
			for i, in := range inputs {
				want[i] = ref.Match(in)
			}
			c := vBuild(thr, docs)
			if idx%2 == 1 {
				// every other storm runs with tracing configured for some licenses (a
				// goroutine-safe discarding tracer): tracing must only observe
				c.SetTraceConfiguration(&TraceConfiguration{TracePhases: "tokenize,frequency", TraceLicenses: "License/MIT*,Header/*,License/Apache-2.0/pristine.txt", Tracer: func(string, ...interface{}) {}})
			}
			// a few reader failures before the storm: error paths must not leave shared
			// state (pools, caches) behind that later concurrent calls trip over
			for k := 0; k < 3; k++ {
				in := inputs[k%len(inputs)]
				if res, err := c.MatchFrom(&vFailReader{data: in, k: r.Intn(len(in) + 1), together: k%2 == 0}); err != errBoom || len(res.Matches) != 0 {
					cs.violation("reader-error-not-returned", "MatchFrom with a failing reader returned err=%v and %d matches", err, len(res.Matches))
					return
				}
			}
			before := vCorpusCanary(c)
			calls := 3
			if mode == "plain" {
				calls = 2
			}
			type callrec struct {
				g, input   int
				begin, end time.Duration
				ok         bool
				why        string
				from       bool
			}
			recs := make([][]callrec, G)
			var wg sync.WaitGroup
			start := make(chan struct{})
			t0 := time.Now()
			seeds := make([]int64, G)
			for g := range seeds {
				seeds[g] = r.Int63()
			}
			// never-seen inputs: every odd goroutine opens with a text nobody in this process
			// has tokenized before (the sequential reference calls above warm up anything
			// that is keyed by word and lives outside the classifier); its words carry
			// character references and process-unique suffixes. The reference result is
			// computed alone AFTER the storm.
			fresh := make([][]byte, G)
			freshGot := make([]Results, G)
			freshDur := make([]time.Duration, G)
			small := byKey["License/MIT/pristine.txt"]
			if small == "" {
				small = raw
			}
			for g := 1; g < G; g += 2 {
				w := strings.Fields(small)
				for k := 0; k < 6 && len(w) > 20; k++ {
					n := atomic.AddInt64(&vFreshCtr, 1)
					w[5+r.Intn(len(w)-10)] = []string{fmt.Sprintf("AT&amp;T%d", n), fmt.Sprintf("&quot;zq%dx&quot;", n), fmt.Sprintf("R&#38;D%d", n), fmt.Sprintf("&copy;%d", n), fmt.Sprintf("zq%d&nbsp;w", n), fmt.Sprintf("&lt;zq%d&gt;", n)}[k]
				}
				fresh[g] = []byte(vOOVBlock(r, 1) + vWithNL(strings.Join(w, " ")))
			}
			for g := 0; g < G; g++ {
				wg.Add(1)
				go func(g int) {
					defer wg.Done()
					gr := rand.New(rand.NewSource(seeds[g]))
					<-start
					if fresh[g] != nil {
						b := time.Now()
						freshGot[g] = c.Match(fresh[g])
						freshDur[g] = time.Since(b)
					}
					for k := 0; k < calls; k++ {
						i := gr.Intn(len(inputs))
						if k == 0 && g%2 == 0 {
							i = g % 3 // half of the goroutines start on the two-edit inputs of the same document
						}
						rec := callrec{g: g, input: i, begin: time.Since(t0)}
						var got Results
						var err error
						if gr.Intn(6) == 0 {
							// a failing reader in the middle of the storm
							fres, ferr := c.MatchFrom(&vFailReader{data: inputs[i], k: gr.Intn(len(inputs[i]) + 1), together: gr.Intn(2) == 0, chunk: 1 + gr.Intn(2000)})
							rec.end = time.Since(t0)
							rec.ok = ferr == errBoom && len(fres.Matches) == 0 && fres.TotalInputLines == 0
							if !rec.ok {
								rec.why = fmt.Sprintf("failing reader: err=%v, %d matches", ferr, len(fres.Matches))
							}
							rec.from = true
							recs[g] = append(recs[g], rec)
							continue
						}
						if gr.Intn(3) == 0 {
							rec.from = true
							if gr.Intn(2) == 0 {
								got, err = c.MatchFrom(bytes.NewReader(inputs[i]))
							} else {
								got, err = c.MatchFrom(iotest.HalfReader(bytes.NewReader(inputs[i])))
							}
						} else {
							got = c.Match(inputs[i])
						}
						rec.end = time.Since(t0)
						if err != nil {
							rec.why = "MatchFrom error: " + err.Error()
						} else if ok, why := vResEqual(want[i], got); !ok {
							rec.why = why
						} else {
							rec.ok = true
						}
						recs[g] = append(recs[g], rec)
					}
				}(g)
			}
			close(start)
			wg.Wait()
			after := vCorpusCanary(c)
			// interleaving evidence
			type ev struct {
				t     time.Duration
				delta int
				input int
			}
			var evs []ev
			ncalls, slow := 0, 0
			for _, rs := range recs {
				for _, rc := range rs {
					ncalls++
					evs = append(evs, ev{rc.begin, +1, rc.input}, ev{rc.end, -1, rc.input})
					if rc.end-rc.begin >= 800*time.Millisecond {
						slow++
					}
				}
			}
			sort.Slice(evs, func(i, j int) bool {
				if evs[i].t != evs[j].t {
					return evs[i].t < evs[j].t
				}
				return evs[i].delta < evs[j].delta
			})
			cur, maxc := 0, 0
			open := map[int]int{}
			maxSameDoc := 0
			for _, x := range evs {
				cur += x.delta
				open[x.input] += x.delta
				if cur > maxc {
					maxc = cur
				}
				same := open[0] + open[1] + open[2] + open[3] // inputs aimed at the same corpus document
				if same > maxSameDoc {
					maxSameDoc = same
				}
			}
			cs.observe("calls", ncalls)
			cs.observe("max_concurrent_calls", maxc)
			cs.observe("max_concurrent_calls_on_same_document", maxSameDoc)
			e.count("concurrent_calls", int64(ncalls))
			e.count("max_concurrency_seen_"+fmt.Sprint(G), int64(maxc))
			if before != after {
				cs.violation("corpus-modified", "the shared corpus (tokens/runes/dictionary) changed during %d concurrent calls", ncalls)
				return
			}
			for _, rs := range recs {
				for _, rc := range rs {
					if rc.ok {
						continue
					}
					if rc.end-rc.begin >= 800*time.Millisecond {
						// go-diff's 1 s wall-clock deadline may have been reached: not judged
						cs.inconclusive("call on input %d took %v (>= 0.8 s): result equality not judged", rc.input, rc.end-rc.begin)
						continue
					}
					cs.setInput(inputs[rc.input])
					cs.violation("concurrent-result-differs", "goroutine %d of %d, input %d (MatchFrom=%v): concurrent result differs from the result of the same call made alone: %s", rc.g, G, rc.input, rc.from, rc.why)
					return
				}
			}
			nfresh := 0
			for g := range fresh {
				if fresh[g] == nil {
					continue
				}
				nfresh++
				if ok, why := vResEqual(ref.Match(fresh[g]), freshGot[g]); !ok {
					if freshDur[g] >= 800*time.Millisecond {
						cs.inconclusive("never-seen input of goroutine %d took %v (>= 0.8 s): result equality not judged", g, freshDur[g])
						continue
					}
					cs.setInput(fresh[g])
					cs.violation("concurrent-result-differs", "goroutine %d of %d, never-seen input (first call of the storm): concurrent result differs from the result of the same call made alone afterwards: %s", g, G, why)
					return
				}
			}
			cs.observe("never_seen_inputs", nfresh)
			e.count("never_seen_inputs_matched_concurrently", int64(nfresh))
			if maxc >= 2 {
				cs.nontrivial(idx, e.shard, G, mode)
			}
			cs.emit = true
		})
	}
}
