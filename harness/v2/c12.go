//go:build verif

package classifier

import (
	"fmt"
	"math/rand"
	"os"
	"path/filepath"
	"sort"
	"strings"
	"testing"
)

// C12 — loading a corpus directory equals adding each of its files.

// VDefaultClassifier is set by the external test file (package classifier_test)
// to assets.DefaultClassifier; the in-package harness cannot import assets.
var VDefaultClassifier func() (*Classifier, error)

type vTreeFile struct {
	rel     string // slash separated, relative to the tree root
	content string
}

// vGenTree generates a directory tree. exact=true: every *txt file sits at
// depth 3 (category/name/variant); junk that must be ignored (shallower files,
// other suffixes) is always present. exact=false additionally has deeper files
// and directories named *txt at depth 3.
func vGenTree(r *rand.Rand, exact bool) []vTreeFile {
	vocab := vSynthVocab(r, 40+r.Intn(200))
	text := func() string {
		n := 4 + r.Intn(120)
		w := make([]string, n)
		for i := range w {
			w[i] = vocab[vZipf(r, len(vocab))]
		}
		t, _ := vLayout(r, w, true)
		switch r.Intn(6) {
		case 0: // CRLF line endings with words hyphenated over line breaks
			lines, _, _, _, _ := vTHyphen(r, strings.Split(t, "\n"))
			t = strings.ReplaceAll(strings.Join(lines, "\n"), "\n", "\r\n")
		case 1: // CRLF only
			t = strings.ReplaceAll(t, "\n", "\r\n")
		case 2: // BOM, tabs, trailing blanks, invalid bytes
			t = "\xef\xbb\xbf" + strings.ReplaceAll(t, "\n", " \t\n") + "\xff\xfe tail\xe2\x80"
		case 3: // NUL bytes (a C-string terminator, or a UTF-16 file)
			if r.Intn(2) == 0 {
				t = t + "\x00"
			} else {
				var sb strings.Builder
				sb.WriteString("\xff\xfe")
				for i := 0; i < len(t); i++ {
					sb.WriteByte(t[i])
					sb.WriteByte(0)
				}
				t = sb.String()
			}
		}
		return t
	}
	names := []string{"License", "Header", "Supplement", "cat txt", "Käse", "a.b", "x", "footxt", "my-cat", "日本"}
	sub := []string{"MIT", "Apache-2.0", "n 1", "foo.bar", "ütf", "q", "nametxt", "B_2"}
	vars := []string{"license.txt", "a.txt", "header.txt", "v2.TXT.txt", "weird name.txt", "x.mtxt", "txt", "notxt", "ü.txt"}
	var out []vTreeFile
	seen := map[string]bool{}
	add := func(rel, content string) {
		if seen[rel] {
			return
		}
		// a path may not be both file and directory
		for k := range seen {
			if strings.HasPrefix(k, rel+"/") || strings.HasPrefix(rel, k+"/") {
				return
			}
		}
		seen[rel] = true
		out = append(out, vTreeFile{rel, content})
	}
	nd := 2 + r.Intn(12)
	for i := 0; i < nd; i++ {
		c := text()
		if r.Intn(12) == 0 {
			c = "" // empty file
		}
		add(names[r.Intn(len(names))]+"/"+sub[r.Intn(len(sub))]+"/"+vars[r.Intn(len(vars))], c)
	}
	// junk: shallower files and other suffixes
	for i, n := 0, 1+r.Intn(5); i < n; i++ {
		switch r.Intn(6) {
		case 0:
			add("README.txt", text())
		case 1:
			add(names[r.Intn(len(names))]+"/stray.txt", text())
		case 2:
			add(names[r.Intn(len(names))]+"/"+sub[r.Intn(len(sub))]+"/notes.md", text())
		case 3:
			add(names[r.Intn(len(names))]+"/"+sub[r.Intn(len(sub))]+"/LICENSE", text())
		case 4:
			add("top.TXT", text())
		default:
			add(names[r.Intn(len(names))]+"/"+sub[r.Intn(len(sub))]+"/upper.TXT", text())
		}
	}
	if !exact {
		for i, n := 0, 1+r.Intn(3); i < n; i++ {
			switch r.Intn(3) {
			case 0:
				add(names[r.Intn(len(names))]+"/"+sub[r.Intn(len(sub))]+"/deep/er.txt", text())
			case 1:
				add(names[r.Intn(len(names))]+"/"+sub[r.Intn(len(sub))]+"/a/b/c.txt", text())
			default:
				add(names[r.Intn(len(names))]+"/"+sub[r.Intn(len(sub))]+"/dirtxt/readme.md", text()) // a directory named *txt at depth 3
			}
		}
	}
	// one tree in three holds a document far larger than any read buffer a loader
	// might use (70-310 KB; the largest embedded asset has 62 KB). Decided from what
	// was generated, without drawing from r.
	if h := len(out)*31 + len(vocab); h%3 == 0 {
		for i := range out {
			if seg := strings.Split(out[i].rel, "/"); len(seg) == 3 && strings.HasSuffix(out[i].rel, "txt") && out[i].content != "" {
				var sb strings.Builder
				sb.WriteString(out[i].content)
				sb.WriteString("\n")
				for k, n := 0, 70000+(h%7)*40000; sb.Len() < n; k++ {
					sb.WriteString(vocab[(k*7+h+k/13)%len(vocab)])
					if k%11 == 10 {
						sb.WriteString("\n")
					} else {
						sb.WriteString(" ")
					}
				}
				out[i].content = sb.String()
				break
			}
		}
	}
	return out
}

func vWriteTree(root string, files []vTreeFile) error {
	for i, f := range files {
		p := filepath.Join(root, filepath.FromSlash(f.rel))
		if err := os.MkdirAll(filepath.Dir(p), 0755); err != nil {
			return err
		}
		if i%5 == 3 {
			// every fifth file is a symbolic link to a regular file kept outside the tree
			tgt := filepath.Join(filepath.Dir(root), fmt.Sprintf("linked_%d.dat", i))
			if err := os.WriteFile(tgt, []byte(f.content), 0644); err != nil {
				return err
			}
			if err := os.Symlink(tgt, p); err != nil {
				return err
			}
			continue
		}
		if err := os.WriteFile(p, []byte(f.content), 0644); err != nil {
			return err
		}
	}
	return nil
}

func vKeys(c *Classifier) []string {
	k := make([]string, 0, len(c.docs))
	for key := range c.docs {
		k = append(k, filepath.ToSlash(key))
	}
	sort.Strings(k)
	return k
}

// vSameCorpus compares two classifiers white-box: key sets and per-key word
// sequences.
func vSameCorpus(a, b *Classifier) string {
	ka, kb := vKeys(a), vKeys(b)
	if strings.Join(ka, "|") != strings.Join(kb, "|") {
		return fmt.Sprintf("corpus keys differ:\n  loaded: %v\n  built:  %v", ka, kb)
	}
	for _, k := range ka {
		if strings.Join(vDocWords(a, k), " ") != strings.Join(vDocWords(b, k), " ") {
			return "document " + k + " has different words"
		}
	}
	return ""
}

func TestVerifC12(t *testing.T) {
	e := vStart(t, "C12")
	defer e.finish()
	docs := vCorpus(t)
	origWD, _ := os.Getwd()
	defer os.Chdir(origWD)
	base := filepath.Join(e.scratch, fmt.Sprintf("c12_%d_%d", e.shard, os.Getpid()))
	if err := os.MkdirAll(base, 0755); err != nil {
		t.Fatal(err)
	}
	defer os.RemoveAll(base)

	ntrees := e.pick(40, 1000)
	spellings := []string{"abs", "rel", "./rel", "rel/", "./rel/", "rel//", ".", "../parent/rel", "symlink", "abs/", "rel/.", "missing", "empty-string", "below-a-file"}
	idx := 0
	for ti := 0; ti < ntrees; ti++ {
		ti := ti
		exact := ti%4 != 3
		for si, sp := range spellings {
			si, sp := si, sp
			gen := "tree-exact:" + sp
			if !exact {
				gen = "tree-deeper:" + sp
			}
			e.run(idx, gen, map[string]interface{}{"tree": ti, "spelling": sp}, func(cs *vCase) {
				// the tree depends on ti only, so that all spellings see the same tree
				r := rand.New(rand.NewSource(vCaseSeed(e.seed, "C12tree", ti)))
				files := vGenTree(r, exact)
				parent := filepath.Join(base, fmt.Sprintf("p%d_%d", ti, si))
				root := filepath.Join(parent, "t r")
				if si%2 == 0 {
					root = filepath.Join(parent, "tree")
				}
				if err := vWriteTree(root, files); err != nil {
					cs.inconclusive("cannot write tree: %v", err)
					return
				}
				defer os.RemoveAll(parent)
				name := filepath.Base(root)
				var dir string
				os.Chdir(parent)
				switch sp {
				case "abs":
					dir = root
				case "abs/":
					dir = root + "/"
				case "rel":
					dir = name
				case "./rel":
					dir = "./" + name
				case "rel/":
					dir = name + "/"
				case "./rel/":
					dir = "./" + name + "/"
				case "rel//":
					dir = name + "//"
				case "rel/.":
					dir = name + "/."
				case ".":
					os.Chdir(root)
					dir = "."
				case "../parent/rel":
					dir = "../" + filepath.Base(parent) + "/" + name
				case "symlink":
					os.Symlink(root, filepath.Join(parent, "lnk"))
					dir = "lnk/" // a symlink to a directory is only walked when spelled with a trailing separator
				case "missing":
					dir = filepath.Join(root, "no", "such", "directory")
				case "empty-string":
					dir = ""
				case "below-a-file":
					dir = filepath.Join(root, filepath.FromSlash(files[0].rel), "below")
				}
				var listing []string
				for _, f := range files {
					listing = append(listing, f.rel)
				}
				sort.Strings(listing)
				cs.observe("files", listing)
				cs.observe("dir", dir)
				thr := 0.8
				loaded := NewClassifier(thr)
				built := NewClassifier(thr)
				if ti%2 == 1 {
					// the classifier already holds documents: one under a key that a file of
					// the tree has too (with ANOTHER text - loading replaces it, as AddContent
					// does), one under a key of its own (it stays)
					for _, c := range []*Classifier{loaded, built} {
						c.AddContent("License", "PreExisting", "own.txt", []byte("this text was registered before the directory was loaded and stays as it is"))
						for _, f := range files {
							seg := strings.Split(f.rel, "/")
							if len(seg) == 3 && strings.HasSuffix(f.rel, "txt") {
								c.AddContent(seg[0], seg[1], seg[2], []byte("an older revision of this file with quite different words "+f.rel))
								break
							}
						}
					}
					e.count("loads_into_populated_classifier", 1)
				}
				err := loaded.LoadLicenses(dir) // a panic is caught by the case runner
				os.Chdir(origWD)
				e.count("loadlicenses_calls", 1)
				if sp == "missing" || sp == "empty-string" || sp == "below-a-file" {
					// nothing can be walked: no panic (caught by the runner), nothing loaded; an
					// error return is acceptable
					if len(loaded.docs) != len(built.docs) {
						cs.violation("loaded-from-nowhere", "dir=%q does not name a directory but %d documents were loaded", dir, len(loaded.docs)-len(built.docs))
						return
					}
					cs.nontrivial(gen, ti)
					return
				}
				// expected: *txt files at depth exactly 3
				expect := map[string]bool{}
				var deeper, dirtxt bool
				for _, f := range files {
					seg := strings.Split(f.rel, "/")
					if len(seg) >= 4 {
						if strings.HasSuffix(f.rel, "txt") {
							deeper = true
						}
						if strings.HasSuffix(seg[2], "txt") {
							dirtxt = true
						}
					}
					if len(seg) == 3 && strings.HasSuffix(f.rel, "txt") {
						built.AddContent(seg[0], seg[1], seg[2], []byte(f.content))
						expect[f.rel] = true
					}
				}
				keys := vKeys(loaded)
				// files that must be ignored never show up (any tree)
				for _, k := range keys {
					seg := strings.Split(k, "/")
					if len(seg) != 3 {
						cs.violation("malformed-key", "dir=%q: corpus key %q does not have three segments", dir, k)
						return
					}
				}
				have := map[string]bool{}
				for _, k := range keys {
					have[k] = true
				}
				for _, f := range files {
					seg := strings.Split(f.rel, "/")
					if len(seg) == 3 && !strings.HasSuffix(f.rel, "txt") && have[f.rel] {
						cs.violation("ignored-file-loaded", "dir=%q: file %q does not end in txt but is in the corpus; files: %v", dir, f.rel, listing)
						return
					}
				}
				_, _ = deeper, dirtxt
				if !exact {
					// deeper files / *txt directories: only no panic (an error is acceptable)
					cs.nontrivial(gen, ti)
					return
				}
				if err != nil {
					cs.violation("load-error", "dir=%q: LoadLicenses returned %v for a tree of readable files; files: %v", dir, err, listing)
					return
				}
				if why := vSameCorpus(loaded, built); why != "" {
					cs.violation("loaded-differs-from-addcontent", "dir=%q: %s; files: %v", dir, why, listing)
					return
				}
				// behavioural equivalence on a query list
				nq := 0
				for _, f := range files {
					if !expect[f.rel] || f.content == "" {
						continue
					}
					for _, q := range []string{
						vOOVBlock(r, 1) + f.content + vOOVBlock(r, 1),
						vMutate(r, f.content, 0.08, nil),
						vOOVBlock(r, 2),
					} {
						a, b := loaded.Match([]byte(q)), built.Match([]byte(q))
						if vCanonOrdered(a) != vCanonOrdered(b) {
							cs.setInput([]byte(q))
							cs.violation("loaded-matches-differently", "dir=%q: query built from %s: loaded %s vs built %s", dir, f.rel, vFmtRes(a), vFmtRes(b))
							return
						}
						nq++
					}
				}
				e.count("equivalence_queries", int64(nq))
				cs.nontrivial(gen, ti)
			})
			idx++
		}
	}

	// DefaultClassifier == LoadLicenses(assets)
	e.run(idx, "default-classifier", map[string]interface{}{}, func(cs *vCase) {
		if VDefaultClassifier == nil {
			cs.inconclusive("assets.DefaultClassifier hook not registered")
			return
		}
		// an earlier instance is used and extended first: every DefaultClassifier()
		// result must stand on its own
		first, err := VDefaultClassifier()
		if err != nil {
			cs.violation("default-classifier-error", "%v", err)
			return
		}
		first.AddContent("License", "VerifExtra", "license.txt", []byte("zqverif zqextra zqdocument zqadded zqto zqthe zqfirst zqinstance zqonly"))
		first.Normalize([]byte("zqsome zqnew zqwords for the dictionary"))
		first.Match([]byte("zqverif zqextra zqdocument zqadded zqto zqthe zqfirst zqinstance zqonly"))
		dc, err := VDefaultClassifier()
		if err != nil {
			cs.violation("default-classifier-error", "%v", err)
			return
		}
		lc := NewClassifier(0.8)
		if err := lc.LoadLicenses("assets"); err != nil {
			cs.violation("load-error", "LoadLicenses(assets): %v", err)
			return
		}
		if dc.threshold != lc.threshold {
			cs.violation("default-classifier-differs", "threshold %v vs %v", dc.threshold, lc.threshold)
			return
		}
		if why := vSameCorpus(dc, lc); why != "" {
			cs.violation("default-classifier-differs", "%s", why)
			return
		}
		r := cs.rng
		vocab := vVocab(lc)
		n := 0
		for k := 0; k < e.pick(150, 1500); k++ {
			b := vMakeBase(r, k%5, docs, r.Intn(len(docs)), vocab)
			x, y := dc.Match([]byte(b.text)), lc.Match([]byte(b.text))
			if vCanonOrdered(x) != vCanonOrdered(y) {
				cs.setInput([]byte(b.text))
				cs.violation("default-classifier-differs", "%s: DefaultClassifier %s vs LoadLicenses(assets) %s", b.name, vFmtRes(x), vFmtRes(y))
				return
			}
			n++
		}
		e.count("default_classifier_queries", int64(n))
		cs.nontrivial("default")
	})
}
