//go:build verif

package sets

import (
	"fmt"
	"math/rand"
	"sort"
	"strings"
	"testing"
)

// C20 (sets part) — StringSet / IntSet behave as finite sets and never modify
// or alias their operands. The same engine drives both implementations through
// the adapter file of the package (vImpl, vNew, vInsert, ...).
//
// Model: map[int]bool per slot, stepped in lock-step with the implementation.
// After EVERY step every live slot is observed completely (Len, Empty,
// Contains over the universe, Sorted, Elements as a set, Equal/Disjoint between
// all pairs both ways) and compared with its model; because results are stored
// into slots and every slot is re-observed after every later mutation, a result
// that aliases an operand is caught as soon as either is modified. In addition
// every fresh result gets an aliasing probe (insert a foreign element, observe
// all other slots, remove it).

type vOp struct {
	kind      string // insert delete union intersect difference unique copy insert2
	recv, arg int    // slots; arg == -1: nil argument
	dst       int
	el        int
}

func (o vOp) String() string {
	switch o.kind {
	case "insert", "delete":
		return fmt.Sprintf("s%d.%s(%d)", o.recv, o.kind, o.el)
	case "insert2":
		return fmt.Sprintf("s%d.insert(%d,%d)", o.recv, o.el, o.el+1)
	case "copy":
		return fmt.Sprintf("s%d=s%d.copy()", o.dst, o.recv)
	}
	a := fmt.Sprintf("s%d", o.arg)
	if o.arg < 0 {
		a = "nil"
	}
	return fmt.Sprintf("s%d=s%d.%s(%s)", o.dst, o.recv, o.kind, a)
}

type vState struct {
	impl  []*vImpl
	model []map[int]bool
	uni   int
}

func vNewState(slots, uni int) *vState {
	st := &vState{uni: uni}
	for i := 0; i < slots; i++ {
		st.impl = append(st.impl, vNew())
		st.model = append(st.model, map[int]bool{})
	}
	return st
}

func vModelSorted(m map[int]bool) []int {
	var out []int
	for k := range m {
		out = append(out, k)
	}
	sort.Ints(out)
	return out
}

func vModelEq(a, b map[int]bool) bool {
	if len(a) != len(b) {
		return false
	}
	for k := range a {
		if !b[k] {
			return false
		}
	}
	return true
}

// observe compares every slot with its model. Returns "" if all agree.
func (st *vState) observe() string {
	for i, s := range st.impl {
		m := st.model[i]
		if s.Len() != len(m) {
			return fmt.Sprintf("s%d.Len() = %d, model %v", i, s.Len(), vModelSorted(m))
		}
		if s.Empty() != (len(m) == 0) {
			return fmt.Sprintf("s%d.Empty() = %v, model %v", i, s.Empty(), vModelSorted(m))
		}
		for e := 0; e <= st.uni+1; e++ {
			if vContains(s, e) != m[e] {
				return fmt.Sprintf("s%d.Contains(%d) = %v, model %v", i, e, vContains(s, e), vModelSorted(m))
			}
		}
		if vContains(s, 99) != m[99] {
			return fmt.Sprintf("s%d.Contains(99) = %v, model %v", i, vContains(s, 99), vModelSorted(m))
		}
		want := vSortedWant(vModelSorted(m))
		got := vSorted(s)
		if strings.Join(got, ",") != strings.Join(want, ",") {
			return fmt.Sprintf("s%d.Sorted() = %v, model %v", i, got, want)
		}
		// the slices handed out are the caller's: overwriting them must not change
		// what the set answers afterwards (no aliasing of internal state)
		vScribble(s)
		if again := vSorted(s); strings.Join(again, ",") != strings.Join(want, ",") {
			return fmt.Sprintf("s%d.Sorted() = %v after the caller overwrote the slice returned by the previous Sorted(), model %v", i, again, want)
		}
		el := vElements(s)
		sort.Strings(el)
		w2 := append([]string{}, want...)
		sort.Strings(w2)
		if strings.Join(el, ",") != strings.Join(w2, ",") {
			return fmt.Sprintf("s%d.Elements() = %v, model %v", i, el, want)
		}
	}
	for i := range st.impl {
		for j := range st.impl {
			if st.impl[i].Equal(st.impl[j]) != vModelEq(st.model[i], st.model[j]) {
				return fmt.Sprintf("s%d.Equal(s%d) = %v, models %v %v", i, j, st.impl[i].Equal(st.impl[j]), vModelSorted(st.model[i]), vModelSorted(st.model[j]))
			}
			dis := true
			for k := range st.model[i] {
				if st.model[j][k] {
					dis = false
				}
			}
			if st.impl[i].Disjoint(st.impl[j]) != dis {
				return fmt.Sprintf("s%d.Disjoint(s%d) = %v, models %v %v", i, j, st.impl[i].Disjoint(st.impl[j]), vModelSorted(st.model[i]), vModelSorted(st.model[j]))
			}
		}
		// nil argument: documented results
		if !st.impl[i].Disjoint(nil) {
			return fmt.Sprintf("s%d.Disjoint(nil) = false", i)
		}
		if st.impl[i].Equal(nil) {
			return fmt.Sprintf("s%d.Equal(nil) = true", i)
		}
	}
	return ""
}

// step applies one operation to implementation and model. Returns "" or the
// first disagreement.
func (st *vState) step(o vOp) string {
	switch o.kind {
	case "insert":
		vInsert(st.impl[o.recv], o.el)
		st.model[o.recv][o.el] = true
	case "insert2":
		vInsert2(st.impl[o.recv], o.el, o.el+1)
		st.model[o.recv][o.el] = true
		st.model[o.recv][o.el+1] = true
	case "delete":
		vDelete(st.impl[o.recv], o.el)
		delete(st.model[o.recv], o.el)
	default:
		a := st.model[o.recv]
		var b map[int]bool
		var argImpl *vImpl
		if o.arg >= 0 {
			b = st.model[o.arg]
			argImpl = st.impl[o.arg]
		}
		want := map[int]bool{}
		var res *vImpl
		switch o.kind {
		case "copy":
			res = st.impl[o.recv].Copy()
			for k := range a {
				want[k] = true
			}
		case "union":
			res = st.impl[o.recv].Union(argImpl)
			for k := range a {
				want[k] = true
			}
			for k := range b {
				want[k] = true
			}
		case "intersect":
			res = st.impl[o.recv].Intersect(argImpl)
			for k := range a {
				if b[k] {
					want[k] = true
				}
			}
		case "difference":
			res = st.impl[o.recv].Difference(argImpl)
			for k := range a {
				if !b[k] {
					want[k] = true
				}
			}
		case "unique":
			res = st.impl[o.recv].Unique(argImpl)
			for k := range a {
				if !b[k] {
					want[k] = true
				}
			}
			for k := range b {
				if !a[k] {
					want[k] = true
				}
			}
		}
		if res == nil {
			return o.String() + " returned nil"
		}
		for i, s := range st.impl {
			if s == res {
				return fmt.Sprintf("%s returned its operand s%d itself, not a new set", o, i)
			}
		}
		// aliasing probe: a foreign element inserted into the result must not show
		// up in any live slot
		vInsert(res, 99)
		if why := st.observe(); why != "" {
			return fmt.Sprintf("after %s and inserting a foreign element into the RESULT: %s (result aliases an operand, or the operation modified an operand)", o, why)
		}
		vDelete(res, 99)
		st.impl[o.dst] = res
		st.model[o.dst] = want
	}
	if why := st.observe(); why != "" {
		return fmt.Sprintf("after %s: %s", o, why)
	}
	return ""
}

func vAlphabet(slots, uni int, withNil bool, dsts []int) []vOp {
	var ops []vOp
	for s := 0; s < slots; s++ {
		for e := 0; e < uni; e++ {
			ops = append(ops, vOp{kind: "insert", recv: s, el: e}, vOp{kind: "delete", recv: s, el: e})
		}
		for _, d := range dsts {
			ops = append(ops, vOp{kind: "copy", recv: s, dst: d})
			for _, k := range []string{"union", "intersect", "difference", "unique"} {
				for a := 0; a < slots; a++ {
					ops = append(ops, vOp{kind: k, recv: s, arg: a, dst: d})
				}
				if withNil {
					ops = append(ops, vOp{kind: k, recv: s, arg: -1, dst: d})
				}
			}
		}
	}
	return ops
}

func TestVerifC20Sets(t *testing.T) {
	e := vStart(t, "C20")
	defer e.finish()
	idx := 0

	// (1) exhaustive: every sequence of <= depth operations
	type cfg struct {
		name   string
		slots  int
		uni    int
		nilArg bool
		dsts   []int
		depth  int
	}
	var cfgs []cfg
	if e.quick() {
		cfgs = []cfg{{"full", 2, 3, true, []int{0, 1}, 3}, {"reduced", 2, 2, false, []int{1}, 4}}
	} else {
		cfgs = []cfg{{"full", 2, 3, true, []int{0, 1}, 4}, {"reduced", 2, 2, false, []int{1}, 5}, {"three-slots", 3, 2, true, []int{0, 2}, 3}}
	}
	for _, cf := range cfgs {
		cf := cf
		alpha := vAlphabet(cf.slots, cf.uni, cf.nilArg, cf.dsts)
		// one case per first operation: the sub-tree below it is enumerated completely
		for first := range alpha {
			first := first
			e.run(idx, "exhaustive-"+vSetKind+"-"+cf.name, map[string]interface{}{"first_op": alpha[first].String(), "depth": cf.depth, "alphabet": len(alpha)}, func(cs *vCase) {
				seq := make([]int, cf.depth)
				seq[0] = first
				n := 0
				var rec func(d int) bool
				run := func(d int) string {
					st := vNewState(cf.slots, cf.uni)
					for i := 0; i <= d; i++ {
						if why := st.step(alpha[seq[i]]); why != "" {
							return why
						}
					}
					return ""
				}
				rec = func(d int) bool {
					// every prefix is itself a sequence; only the leaves need a full replay,
					// because a replay checks every prefix on the way
					if d == cf.depth-1 {
						n++
						if why := run(d); why != "" {
							var names []string
							for i := 0; i <= d; i++ {
								names = append(names, alpha[seq[i]].String())
							}
							cs.violation("set-model-mismatch", "%s, sequence [%s]: %s", vSetKind, strings.Join(names, "; "), why)
							return false
						}
						return true
					}
					for k := range alpha {
						seq[d+1] = k
						if !rec(d + 1) {
							return false
						}
					}
					return true
				}
				rec(0)
				e.count("sequences_"+cf.name, int64(n))
				cs.nontrivial(vSetKind, cf.name, first)
			})
			idx++
		}
	}

	// (2) seeded long sequences over larger universes, three slots, multi-insert
	nr := e.pick(400, 20000)
	for k := 0; k < nr; k++ {
		e.run(idx, "random-"+vSetKind, map[string]interface{}{"k": k}, func(cs *vCase) {
			r := rand.New(rand.NewSource(cs.rng.Int63()))
			uni := 5 + r.Intn(46)
			slots := 2 + r.Intn(2)
			st := vNewState(slots, uni)
			steps := 200 + r.Intn(1800)
			if e.quick() {
				steps = 100 + r.Intn(300)
			}
			kinds := []string{"insert", "insert", "insert2", "delete", "union", "intersect", "difference", "unique", "copy"}
			var trace []string
			for i := 0; i < steps; i++ {
				o := vOp{kind: kinds[r.Intn(len(kinds))], recv: r.Intn(slots), arg: r.Intn(slots+1) - 1, dst: r.Intn(slots), el: r.Intn(uni)}
				if o.kind == "insert2" && o.el+1 >= uni {
					o.el = 0
				}
				trace = append(trace, o.String())
				if len(trace) > 12 {
					trace = trace[1:]
				}
				if why := st.step(o); why != "" {
					cs.violation("set-model-mismatch", "%s, step %d of a random sequence (last ops: %s): %s", vSetKind, i, strings.Join(trace, "; "), why)
					return
				}
			}
			e.count("random_steps", int64(steps))
			cs.nontrivial(vSetKind, "rand", cs.idx)
		})
		idx++
	}
}
