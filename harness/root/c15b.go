//go:build verif

package licenseclassifier

import (
	"encoding/json"
	"fmt"
	"math/rand"
	"os"
	"path/filepath"
	"sort"
	"strings"
	"sync"
	"testing"
	"time"

	"github.com/google/licenseclassifier/stringclassifier"
)

// C15, step 2 — every archive written by the real ArchiveLicenses (step 1,
// package serializer) is loaded with New(t, ArchiveBytes(b)) and compared with
// a License built directly from the same normalised texts.

type vArchiveDesc struct {
	File  string   `json:"file"`
	Names []string `json:"names"`
	Kind  string   `json:"kind"`
}

var vReadOnce sync.Once

// vCurrentArchive: index of the archive whose synthetic files are served (the
// shared name has a different text in every archive); guarded by vArchiveMu.
var (
	vArchiveMu      sync.Mutex
	vCurrentArchive = -1
)

// vInstallReader serves synthetic license files written by step 1.
func vInstallReader(scratch string) {
	vReadOnce.Do(func() {
		orig := ReadLicenseFile
		ReadLicenseFile = func(name string) ([]byte, error) {
			if strings.HasPrefix(name, "Syn") {
				if vCurrentArchive >= 0 {
					if b, err := os.ReadFile(filepath.Join(scratch, "c15", "files", fmt.Sprintf("a%03d_%s", vCurrentArchive, name))); err == nil {
						return b, nil
					}
				}
				return os.ReadFile(filepath.Join(scratch, "c15", "files", name))
			}
			return orig(name)
		}
	})
}

func vNormLicense(text string) string {
	s := TrimExtraneousTrailingText(text)
	for _, f := range Normalizers {
		s = f(s)
	}
	return s
}

// vDirect builds a License without going through an archive: every license is
// registered with AddValue on its (trailing-text-trimmed) raw text, so that the
// classifier's own normalisers are applied exactly once and the search sets are
// built lazily - the way a caller would build a classifier "directly".
func vDirect(thr float64, names []string) (*License, map[string]string, error) {
	sc := stringclassifier.New(thr, Normalizers...)
	norms := map[string]string{}
	for _, n := range names {
		c, err := ReadLicenseFile(n)
		if err != nil {
			return nil, nil, err
		}
		key := strings.TrimSuffix(n, ".txt")
		norms[key] = vNormLicense(string(c))
		if err := sc.AddValue(key, TrimExtraneousTrailingText(string(c))); err != nil {
			return nil, nil, err
		}
	}
	return &License{c: sc, Threshold: thr}, norms, nil
}

func vFmtMatch(m *stringclassifier.Match) string {
	if m == nil {
		return "nil"
	}
	return fmt.Sprintf("{%s %v off=%d ext=%d}", m.Name, m.Confidence, m.Offset, m.Extent)
}

func vFmtMatches(ms stringclassifier.Matches) string {
	var s []string
	for _, m := range ms {
		s = append(s, vFmtMatch(m))
	}
	return strings.Join(s, " ")
}

// vLetterDamage changes one letter in every k-th word: few intact word chunks, yet a
// high edit-distance similarity.
func vLetterDamage(r *rand.Rand, s string, k int) string {
	w := strings.Fields(s)
	for i := k - 1; i < len(w); i += k {
		b := []byte(w[i])
		for j := range b {
			if b[j] >= 'a' && b[j] <= 'z' {
				b[j] = 'a' + (b[j]-'a'+1)%26
				break
			}
		}
		w[i] = string(b)
	}
	return strings.Join(w, " ")
}

func vEditText(r *rand.Rand, s string, rate float64) string {
	w := strings.Fields(s)
	for i := range w {
		if r.Float64() < rate {
			w[i] = []string{"zqxj", "foo", "the", "software", ""}[r.Intn(5)]
		}
	}
	return strings.Join(w, " ")
}

func TestVerifC15(t *testing.T) {
	e := vStart(t, "C15")
	defer e.finish()
	vInstallReader(e.scratch)
	b, err := os.ReadFile(filepath.Join(e.scratch, "c15", "archives.json"))
	if err != nil {
		t.Fatalf("step 1 output missing: %v", err)
	}
	var descs []vArchiveDesc
	if err := json.Unmarshal(b, &descs); err != nil || len(descs) == 0 {
		t.Fatalf("bad archives.json: %v", err)
	}
	for idx, d := range descs {
		idx, d := idx, d
		e.run(idx, "roundtrip-"+d.Kind, map[string]interface{}{"archive": filepath.Base(d.File), "licenses": len(d.Names)}, func(cs *vCase) {
			r := cs.rng
			thr := []float64{0.8, 0.8, 0.9, 0.5}[idx%4]
			if d.Kind == "synthetic" || d.Kind == "mixed" {
				// the shared synthetic name resolves per archive: one such case at a time
				vArchiveMu.Lock()
				defer vArchiveMu.Unlock()
				var ai int
				fmt.Sscanf(filepath.Base(d.File), "arch_%d.db", &ai)
				vCurrentArchive = ai
				defer func() { vCurrentArchive = -1 }()
			}
			ab, err := os.ReadFile(d.File)
			if err != nil {
				cs.inconclusive("cannot read archive: %v", err)
				return
			}
			A, err := New(thr, ArchiveBytes(ab))
			if err != nil {
				cs.violation("archive-does-not-load", "New(%v, ArchiveBytes(%s)) = %v; licenses %v", thr, filepath.Base(d.File), err, d.Names)
				return
			}
			B, norms, err := vDirect(thr, d.Names)
			if err != nil {
				cs.inconclusive("cannot build the direct classifier: %v", err)
				return
			}
			inS := map[string]bool{}
			for _, n := range d.Names {
				inS[strings.TrimSuffix(strings.TrimSuffix(n, ".txt"), ".header")] = true
			}
			checkNames := func(what string, ms stringclassifier.Matches) bool {
				for _, m := range ms {
					if !inS[m.Name] {
						cs.violation("foreign-name", "%s returned %q which is not in the archive %v", what, m.Name, d.Names)
						return false
					}
				}
				return true
			}
			nq, slow := 0, 0
			// every license is retrievable under its file name (exact-match path)
			order := r.Perm(len(d.Names))
			limit := len(d.Names)
			if limit > 40 {
				limit = 40
			}
			for _, i := range order[:limit] {
				n := d.Names[i]
				key := strings.TrimSuffix(n, ".txt")
				raw, _ := ReadLicenseFile(n)
				text := TrimExtraneousTrailingText(string(raw))
				if !A.hasCommonLicenseWords(text) {
					continue // NearestMatch declines texts without a common license word (C16's business)
				}
				t0 := time.Now()
				m := A.NearestMatch(text)
				if time.Since(t0) > 800*time.Millisecond {
					slow++
				}
				nq++
				want := strings.TrimSuffix(key, ".header")
				ok := m != nil && m.Confidence == 1.0 && m.Name == want
				if m != nil && m.Confidence == 1.0 && !ok {
					// another license of S with the identical normalised text may answer
					for k, s := range norms {
						if strings.TrimSuffix(k, ".header") == m.Name && s == norms[key] {
							ok = true
						}
					}
				}
				if !ok {
					cs.violation("license-not-retrievable", "archive %s: NearestMatch(text of %s) = %s, want {%s 1}", filepath.Base(d.File), n, vFmtMatch(m), want)
					return
				}
				// differential queries built from this license
				small := len(norms[key]) <= 4000
				queries := []string{"preface words here\n" + string(raw) + "\ntrailer words", vEditText(r, string(raw), 0.03), vLetterDamage(r, string(raw), 3+r.Intn(3))}
				if len(d.Names) > 1 {
					o, _ := ReadLicenseFile(d.Names[r.Intn(len(d.Names))])
					if len(o) < 6000 {
						queries = append(queries, string(raw)+"\n\n"+string(o))
					}
				}
				queries = append(queries, "zqxj kkvv software qqzz license jjxx")
				for _, q := range queries {
					if len(q) > 30000 {
						continue
					}
					t0 := time.Now()
					ma, mb := A.MultipleMatch(q, true), B.MultipleMatch(q, true)
					dt := time.Since(t0)
					nq++
					if !checkNames("MultipleMatch", ma) {
						return
					}
					if vFmtMatches(ma) != vFmtMatches(mb) {
						if dt > 1600*time.Millisecond {
							slow++
							continue // the diff library's wall-clock deadline may have been reached
						}
						cs.hostileInput([]byte(q))
						cs.violation("archive-differs-from-direct", "archive %s, query from %s: MultipleMatch archive-built %s vs direct %s", filepath.Base(d.File), n, vFmtMatches(ma), vFmtMatches(mb))
						return
					}
					if small && len(q) < 9000 {
						t0 = time.Now()
						na, nb := A.NearestMatch(q), B.NearestMatch(q)
						dt = time.Since(t0)
						nq++
						if na != nil && !inS[na.Name] && na.Name != "" {
							cs.violation("foreign-name", "NearestMatch returned %q which is not in the archive", na.Name)
							return
						}
						same := vFmtMatch(na) == vFmtMatch(nb)
						if !same && na != nil && nb != nil && na.Confidence == nb.Confidence {
							same = true // equidistant values: documented as undefined which one is returned
						}
						if !same {
							if dt > 1600*time.Millisecond {
								slow++
								continue
							}
							cs.hostileInput([]byte(q))
							cs.violation("archive-differs-from-direct", "archive %s, query from %s: NearestMatch archive-built %s vs direct %s", filepath.Base(d.File), n, vFmtMatch(na), vFmtMatch(nb))
							return
						}
					}
				}
			}
			e.count("queries", int64(nq))
			e.count("calls_not_judged_slow", int64(slow))
			var ks []string
			for k := range norms {
				ks = append(ks, k)
			}
			sort.Strings(ks)
			cs.observe("licenses", ks)
			cs.nontrivial(d.File, thr)
		})
	}
}
