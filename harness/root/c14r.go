//go:build verif

package licenseclassifier

import (
	"encoding/json"
	"fmt"
	"math/rand"
	"os"
	"path/filepath"
	"sync"
	"sync/atomic"
	"testing"
	"time"

	"github.com/google/licenseclassifier/stringclassifier"
)

// C14 (root part) — concurrent MultipleMatch / NearestMatch on one
// licenseclassifier.License built from an archive (precomputed search sets).
// Built with -race by the driver; results are compared with the same calls
// made alone.

func TestVerifC14Root(t *testing.T) {
	e := vStart(t, "C14")
	defer e.finish()
	e.everyShard = true
	vInstallReader(e.scratch)
	b, err := os.ReadFile(filepath.Join(e.scratch, "c15", "archives.json"))
	if err != nil {
		t.Fatalf("step 1 output missing: %v", err)
	}
	var descs []vArchiveDesc
	if err := json.Unmarshal(b, &descs); err != nil || len(descs) == 0 {
		t.Fatalf("bad archives.json: %v", err)
	}
	d := descs[0]
	ab, _ := os.ReadFile(d.File)
	rounds := e.pick(6, 30)
	for idx := 0; idx < rounds; idx++ {
		idx := idx
		e.run(1000+idx, "license-storm", map[string]interface{}{"process": e.shard, "licenses": len(d.Names)}, func(cs *vCase) {
			r := rand.New(rand.NewSource(vCaseSeed(e.seed*313+int64(e.shard), "C14root", idx)))
			L, err := New(0.8, ArchiveBytes(ab))
			if err != nil {
				cs.violation("archive-does-not-load", "%v", err)
				return
			}
			var texts []string
			for _, n := range d.Names {
				raw, _ := ReadLicenseFile(n)
				texts = append(texts, string(raw), "some preface\n"+vEditText(r, string(raw), 0.04)+"\ntrailer")
			}
			wantMM := make([]string, len(texts))
			wantNM := make([]string, len(texts))
			wantNMc := make([]*stringclassifier.Match, len(texts))
			for i, q := range texts {
				wantMM[i] = vFmtMatches(L.MultipleMatch(q, true))
				if m := L.NearestMatch(q); m != nil {
					cp := *m
					wantNMc[i] = &cp
				}
				wantNM[i] = vFmtMatch(wantNMc[i])
			}
			G := []int{4, 8, 16}[idx%3]
			var wg sync.WaitGroup
			var slow int64
			start := make(chan struct{})
			errs := make(chan string, G*8)
			seeds := make([]int64, G)
			for g := range seeds {
				seeds[g] = r.Int63()
			}
			for g := 0; g < G; g++ {
				wg.Add(1)
				go func(g int) {
					defer wg.Done()
					gr := rand.New(rand.NewSource(seeds[g]))
					<-start
					for k := 0; k < 6; k++ {
						i := gr.Intn(len(texts))
						t0 := time.Now()
						if gr.Intn(2) == 0 {
							if got := vFmtMatches(L.MultipleMatch(texts[i], true)); got != wantMM[i] {
								if time.Since(t0) >= 950*time.Millisecond {
									atomic.AddInt64(&slow, 1) // the diff library's wall-clock deadline may have been reached
									continue
								}
								errs <- fmt.Sprintf("MultipleMatch(text %d) = %s, alone: %s", i, got, wantMM[i])
							}
						} else {
							nm := L.NearestMatch(texts[i])
							if got := vFmtMatch(nm); got != wantNM[i] {
								// "If the string is equidistant from multiple known values, it is
								// undefined which will be returned": same confidence, offset and
								// extent under another name is not a difference
								if nm != nil && wantNMc[i] != nil && nm.Confidence == wantNMc[i].Confidence && nm.Offset == wantNMc[i].Offset && nm.Extent == wantNMc[i].Extent {
									continue
								}
								if time.Since(t0) >= 950*time.Millisecond {
									atomic.AddInt64(&slow, 1)
									continue
								}
								errs <- fmt.Sprintf("NearestMatch(text %d) = %s, alone: %s", i, got, wantNM[i])
							}
						}
					}
				}(g)
			}
			close(start)
			wg.Wait()
			close(errs)
			e.count("calls_not_judged_slow", slow)
			for s := range errs {
				cs.violation("concurrent-result-differs", "%d goroutines on one License (archive of %d licenses): %s", G, len(d.Names), s)
				return
			}
			e.count("license_storm_calls", int64(G*6))
			cs.nontrivial("root", idx, e.shard)
		})
	}
}
