//go:build verif

package licenseclassifier

import (
	"encoding/json"
	"fmt"
	"math/rand"
	"os"
	"path/filepath"
	"sort"
	"strings"
	"testing"
	"unicode"
	"time"
)

// C16 — the v1 License classifier identifies every license in its own corpus.

func vReflow(r *rand.Rand, text string, width int, tabs, crlf bool) string {
	words := strings.Fields(text)
	var sb strings.Builder
	col := 0
	for _, w := range words {
		if col > 0 && col+1+len(w) > width {
			if crlf {
				sb.WriteString("\r\n")
			} else {
				sb.WriteString("\n")
			}
			col = 0
		}
		if col > 0 {
			if tabs && r.Intn(4) == 0 {
				sb.WriteString("\t")
			} else {
				sb.WriteString(" ")
			}
			col++
		}
		sb.WriteString(w)
		col += len(w)
	}
	sb.WriteString("\n")
	return sb.String()
}

// vOwnNorm: lower case, everything that is not a letter or digit becomes a blank,
// runs of blanks collapse.
func vOwnNorm(s string) string {
	var sb strings.Builder
	sp := true
	for _, r := range strings.ToLower(s) {
		if unicode.IsLetter(r) || unicode.IsDigit(r) {
			sb.WriteRune(r)
			sp = false
		} else if !sp {
			sb.WriteByte(' ')
			sp = true
		}
	}
	return strings.TrimSpace(sb.String())
}

func vDecorate(text, prefix string) string {
	lines := strings.Split(text, "\n")
	for i := range lines {
		lines[i] = prefix + lines[i]
	}
	return strings.Join(lines, "\n")
}

func TestVerifC16(t *testing.T) {
	e := vStart(t, "C16")
	defer e.finish()
	vInstallReader(e.scratch)
	b, err := os.ReadFile(filepath.Join(e.scratch, "c15", "archives.json"))
	if err != nil {
		t.Fatalf("step 1 output missing: %v", err)
	}
	var descs []vArchiveDesc
	if err := json.Unmarshal(b, &descs); err != nil || len(descs) == 0 {
		t.Fatalf("bad archives.json: %v", err)
	}
	full := descs[0]
	ab, err := os.ReadFile(full.File)
	if err != nil {
		t.Fatal(err)
	}
	L, err := New(DefaultConfidenceThreshold, ArchiveBytes(ab))
	if err != nil {
		t.Fatalf("cannot load the full archive: %v", err)
	}
	names := append([]string{}, full.Names...)
	sort.Strings(names)
	variants := []string{"as-is", "upper", "lower", "reflow-40", "reflow-120-tabs", "reflow-crlf", "reflow-one-line", "decor-slashes", "decor-hash", "decor-star", "decor-dashes"}
	type cdesc struct {
		file    string
		variant string
	}
	var cases []cdesc
	rr := rand.New(rand.NewSource(e.seed*48271 + 16))
	if e.quick() {
		perm := rr.Perm(len(names))
		for k := 0; k < 36; k++ {
			f := names[perm[k]]
			cases = append(cases, cdesc{f, "as-is"}, cdesc{f, variants[1+rr.Intn(2)]}, cdesc{f, variants[3+rr.Intn(8)]})
		}
	} else {
		for _, f := range names {
			cases = append(cases, cdesc{f, "as-is"}, cdesc{f, "upper"}, cdesc{f, "lower"}, cdesc{f, variants[3+rr.Intn(3)]}, cdesc{f, "reflow-one-line"}, cdesc{f, variants[7+rr.Intn(4)]}, cdesc{f, variants[3+rr.Intn(8)]})
		}
	}
	{
		// driven on purpose in every tier: (1) files that pass the "has a common license
		// word" gate through ONE word only - any presentation in which that word is no
		// longer recognised makes NearestMatch decline; (2) short texts (one-line headers
		// up to a few lines), where whatever a normaliser drops at the start or end of
		// the text is most of the text.
		words := []string{"code", "license", "original", "rights", "software", "terms", "version", "work"}
		isWord := func(c byte) bool { return c == '_' || c >= '0' && c <= '9' || c >= 'a' && c <= 'z' }
		for _, f := range names {
			raw, _ := ReadLicenseFile(f)
			low := strings.ToLower(string(raw))
			n := 0
			for _, w := range words {
				for i := strings.Index(low, w); i >= 0; {
					j := i + len(w)
					if (i == 0 || !isWord(low[i-1])) && (j == len(low) || !isWord(low[j])) {
						n++
						break
					}
					k := strings.Index(low[j:], w)
					if k < 0 {
						break
					}
					i = j + k
				}
			}
			if n == 1 {
				for _, v := range []string{"as-is", "upper", "lower", "reflow-one-line", "decor-slashes", "decor-star"} {
					cases = append(cases, cdesc{f, v})
				}
			}
			if len(raw) <= 1500 {
				for _, v := range []string{"upper", "decor-slashes", "decor-hash", "decor-star", "decor-dashes"} {
					cases = append(cases, cdesc{f, v})
				}
			}
		}
	}
	if e.quick() {
		// the one-line re-flow for every file that begins with a notice line (the layout in
		// which a whole-line rule can swallow the text), plus a sample of the others
		for _, f := range names {
			raw, _ := ReadLicenseFile(f)
			first := strings.ToLower(strings.SplitN(strings.TrimSpace(string(raw)), "\n", 2)[0])
			if strings.Contains(first, "copyright") || rr.Intn(8) == 0 {
				cases = append(cases, cdesc{f, "reflow-one-line"})
			}
		}
	}
	// corpus files whose normalised text CONTAINS another corpus file's normalised text
	// (Xnet = MIT + a paragraph, NPL-1.1 = amendments + MPL-1.1, ...): the shorter
	// one must not answer for the longer one. Asked several times, because which
	// known value is looked at first depends on map iteration order.
	{
		norms := map[string]string{}
		for _, f := range names {
			raw, _ := ReadLicenseFile(f)
			norms[f] = vNormLicense(string(raw))
		}
		for _, f := range names {
			for _, g := range names {
				if f != g && len(norms[g]) > 200 && len(norms[f]) > len(norms[g]) && strings.Contains(norms[f], norms[g]) {
					for k := 0; k < e.pick(4, 12); k++ {
						cases = append(cases, cdesc{f, "as-is"})
					}
					break
				}
			}
		}
	}
	nid := len(cases)
	// threshold bound of MultipleMatch, on classifiers of several thresholds
	nthr := e.pick(12, 120)
	for k := 0; k < nthr; k++ {
		cases = append(cases, cdesc{"", fmt.Sprintf("threshold-bound-%d", k)})
	}
	for idx, cd := range cases {
		idx, cd := idx, cd
		if idx >= nid {
			e.run(idx, "multiplematch-threshold", map[string]interface{}{"k": idx - nid}, func(cs *vCase) {
				r := cs.rng
				thr := []float64{0.5, 0.8, 0.9, 0.95}[(idx-nid)%4]
				var sub []string
				for _, i := range r.Perm(len(names))[:12] {
					sub = append(sub, names[i])
				}
				C, _, err := vDirect(thr, sub)
				if err != nil {
					cs.inconclusive("%v", err)
					return
				}
				nm := 0
				for _, n := range sub {
					raw, _ := ReadLicenseFile(n)
					if len(raw) > 12000 {
						continue
					}
					for _, q := range []string{string(raw), vEditText(r, string(raw), []float64{0.05, 0.15, 0.3}[r.Intn(3)]), "software license " + vEditText(r, string(raw), 0.5), string(raw)[:len(raw)/2]} {
						for _, hdr := range []bool{true, false} {
							for _, m := range C.MultipleMatch(q, hdr) {
								nm++
								if m.Confidence < thr-1e-9 {
									cs.hostileInput([]byte(q))
									cs.violation("match-below-threshold", "threshold %v: MultipleMatch returned %s", thr, vFmtMatch(m))
									return
								}
								if !hdr && strings.HasSuffix(m.Name, ".header") {
									cs.violation("header-name-leaked", "MultipleMatch(includeHeaders=false) returned %s", vFmtMatch(m))
									return
								}
							}
						}
					}
				}
				// several degraded passages in one text: every one of them is below the
				// threshold and none may leak
				for k := 0; k < 6; k++ {
					var parts []string
					for j, m := 0, 2+r.Intn(3); j < m; j++ {
						raw, _ := ReadLicenseFile(sub[r.Intn(len(sub))])
						if len(raw) > 6000 {
							continue
						}
						if r.Intn(3) == 0 {
							parts = append(parts, vEditText(r, string(raw), []float64{0.3, 0.4, 0.5}[r.Intn(3)]))
							continue
						}
						// all words of the license stay (it remains a candidate) but a long foreign
						// paragraph in the middle pushes the edit-distance confidence below the
						// threshold
						L := len(vNormLicense(string(raw)))
						j := int(float64(L) * (1/thr - 1) * (1.15 + 0.5*r.Float64()))
						phrase := "furthermore every recipient waters the plants of the maintainers "
						junk := strings.Repeat(phrase, j/len(phrase)+1)[:j]
						mid := len(raw) / 2
						for mid < len(raw) && raw[mid] != ' ' {
							mid++
						}
						parts = append(parts, string(raw[:mid])+" "+junk+" "+string(raw[mid:]))
					}
					q := strings.Join(parts, "\n\nsoftware license terms\n\n")
					for _, hdr := range []bool{true, false} {
						for _, m := range C.MultipleMatch(q, hdr) {
							nm++
							if m.Confidence < thr-1e-9 {
								cs.hostileInput([]byte(q))
								cs.violation("match-below-threshold", "threshold %v: MultipleMatch returned %s for a text made of %d degraded passages", thr, vFmtMatch(m), len(parts))
								return
							}
						}
					}
				}
				// sweep the amount of inserted junk across the point where the confidence
				// crosses the threshold: matches just below it must not be reported
				for _, n := range sub {
					raw, _ := ReadLicenseFile(n)
					if len(raw) > 3000 || len(raw) < 300 {
						continue
					}
					L := len(vNormLicense(string(raw)))
					lo, hi := int(float64(L)*(1/thr-1)*0.8), int(float64(L)*(1/thr-1)*1.25)
					step := (hi - lo) / 40
					if step < 1 {
						step = 1
					}
					mid := len(raw) / 2
					for j := lo; j <= hi; j += step {
						junk := strings.Repeat("zq xj kv ", j/9+1)[:j]
						q := string(raw[:mid]) + " " + junk + " " + string(raw[mid:])
						for _, m := range C.MultipleMatch(q, true) {
							nm++
							if m.Confidence < thr-1e-9 {
								cs.hostileInput([]byte(q))
								cs.violation("match-below-threshold", "threshold %v: MultipleMatch returned %s (license %s with %d junk bytes inserted)", thr, vFmtMatch(m), n, j)
								return
							}
						}
						e.count("threshold_cliff_queries", 1)
					}
				}
				e.count("multiplematch_results_checked", int64(nm))
				if nm > 0 {
					cs.nontrivial("thr", idx)
				}
			})
			continue
		}
		e.run(idx, "identify:"+cd.variant, map[string]interface{}{"file": cd.file, "variant": cd.variant}, func(cs *vCase) {
			r := cs.rng
			raw, err := ReadLicenseFile(cd.file)
			if err != nil {
				cs.inconclusive("%v", err)
				return
			}
			text := string(raw)
			switch cd.variant {
			case "upper":
				text = strings.ToUpper(text)
			case "lower":
				text = strings.ToLower(text)
			case "reflow-40":
				text = vReflow(r, text, 40, false, false)
			case "reflow-120-tabs":
				text = vReflow(r, text, 120, true, false)
			case "reflow-crlf":
				text = vReflow(r, text, 72, false, true)
			case "reflow-one-line":
				text = strings.Join(strings.Fields(text), " ") + "\n"
			case "decor-slashes":
				text = vDecorate(text, "// ")
			case "decor-hash":
				text = vDecorate(text, "# ")
			case "decor-star":
				text = vDecorate(text, " * ")
			case "decor-dashes":
				text = vDecorate(text, "-- ")
			}
			want := strings.TrimSuffix(strings.TrimSuffix(cd.file, ".txt"), ".header")
			cs.hostileInput([]byte(text))
			t0 := time.Now()
			m := L.NearestMatch(text)
			cs.observe("seconds", time.Since(t0).Seconds())
			e.count("nearestmatch_calls", 1)
			if m == nil {
				cs.violation("license-not-identified", "NearestMatch(%s, %s) = nil", cd.file, cd.variant)
				return
			}
			// the diff library stops refining after a wall-clock second: a call that took
			// that long may report a lower confidence for reasons of load, not of code
			slow := time.Since(t0) >= 950*time.Millisecond
			if m.Name != want {
				// another corpus file with the identical normalised text may answer
				a, _ := ReadLicenseFile(m.Name + ".txt")
				a2, _ := ReadLicenseFile(m.Name + ".header.txt")
				// "identical" by the harness' own reading (case, punctuation and white space
				// aside, digits kept) - not by the package's normalisers, which are under test
				if (len(a) > 0 && vOwnNorm(string(a)) == vOwnNorm(string(raw))) || (len(a2) > 0 && vOwnNorm(string(a2)) == vOwnNorm(string(raw))) {
					cs.nontrivial(cd.file, cd.variant)
					return
				}
				if slow {
					cs.inconclusive("NearestMatch(%s, %s) = %s after %.1fs: the diff deadline may have been reached", cd.file, cd.variant, vFmtMatch(m), time.Since(t0).Seconds())
					return
				}
				cs.violation("license-misidentified", "NearestMatch(%s, %s) = %s, want %s", cd.file, cd.variant, vFmtMatch(m), want)
				return
			}
			if !L.WithinConfidenceThreshold(m.Confidence) {
				if slow {
					cs.inconclusive("NearestMatch(%s, %s) = %s after %.1fs: the diff deadline may have been reached", cd.file, cd.variant, vFmtMatch(m), time.Since(t0).Seconds())
					return
				}
				cs.violation("confidence-below-default-threshold", "NearestMatch(%s, %s) = %s, below %v", cd.file, cd.variant, vFmtMatch(m), DefaultConfidenceThreshold)
				return
			}
			cs.nontrivial(cd.file, cd.variant)
		})
	}
}
