//go:build verif

package searchset

import (
	"fmt"
	"strings"
	"sync/atomic"
	"testing"
	"unicode"
	"unicode/utf8"

	"github.com/google/licenseclassifier/stringclassifier/searchset/tokenizer"
)

// C17 — v1 token offsets and candidate ranges always delimit real text.

// vCheckTokens verifies the tokenizer invariants on s. Returns "" if they hold.
func vCheckTokens(s string) string {
	toks := tokenizer.Tokenize(s)
	covered := make([]bool, len(s))
	prevEnd := 0
	for i, tk := range toks {
		if tk.Offset < 0 || tk.Offset+len(tk.Text) > len(s) {
			return fmt.Sprintf("token %d %q@%d lies outside the string (len %d)", i, tk.Text, tk.Offset, len(s))
		}
		if s[tk.Offset:tk.Offset+len(tk.Text)] != tk.Text {
			return fmt.Sprintf("token %d: text %q but s[%d:%d] = %q", i, tk.Text, tk.Offset, tk.Offset+len(tk.Text), s[tk.Offset:tk.Offset+len(tk.Text)])
		}
		if len(tk.Text) == 0 {
			return fmt.Sprintf("token %d is empty", i)
		}
		if tk.Offset < prevEnd {
			return fmt.Sprintf("token %d %q@%d overlaps or precedes the previous token (which ends at %d)", i, tk.Text, tk.Offset, prevEnd)
		}
		prevEnd = tk.Offset + len(tk.Text)
		for j := tk.Offset; j < prevEnd; j++ {
			covered[j] = true
		}
	}
	// every non-space character is covered by a token
	for i := 0; i < len(s); {
		r, size := utf8.DecodeRuneInString(s[i:])
		if !unicode.IsSpace(r) {
			for j := i; j < i+size; j++ {
				if !covered[j] {
					return fmt.Sprintf("byte %d (rune %q) is not whitespace but belongs to no token", j, r)
				}
			}
		} else {
			for j := i; j < i+size; j++ {
				if covered[j] {
					return fmt.Sprintf("whitespace rune %q at byte %d is inside a token", r, i)
				}
			}
		}
		i += size
	}
	return ""
}

// vCheckCandidates verifies the candidate invariants for a (source, target) pair.
// vListsOutOfOrder counts candidate LISTS whose candidates do not follow each other
// in target order. Observation only (reported in the evidence, never a verdict): the
// statement orders the ranges of each candidate; the relative order of the candidates
// is not observable through the classifier, which ranks matches itself.
var vListsOutOfOrder, vListsSeen int64

func vCheckCandidates(src, tgt string) (string, int) {
	ss, ts := New(src, DefaultGranularity), New(tgt, DefaultGranularity)
	mrs := FindPotentialMatches(ss, ts)
	if len(mrs) > 1 {
		atomic.AddInt64(&vListsSeen, 1)
		for i := 1; i < len(mrs); i++ {
			if len(mrs[i]) > 0 && len(mrs[i-1]) > 0 && mrs[i][0].TargetStart < mrs[i-1][0].TargetStart {
				atomic.AddInt64(&vListsOutOfOrder, 1)
				break
			}
		}
	}
	for ci, mr := range mrs {
		if len(mr) == 0 {
			return fmt.Sprintf("candidate %d is empty", ci), len(mrs)
		}
		prev := -1
		for _, m := range mr {
			if m.TargetStart < 0 || m.TargetEnd > len(ts.Tokens) || m.TargetStart >= m.TargetEnd {
				return fmt.Sprintf("candidate %d: target token range [%d,%d) outside the target's %d tokens: %v", ci, m.TargetStart, m.TargetEnd, len(ts.Tokens), mr), len(mrs)
			}
			if m.TargetStart < prev {
				return fmt.Sprintf("candidate %d is not ordered by target position: %v", ci, mr), len(mrs)
			}
			prev = m.TargetStart
		}
		s, e := mr.TargetRange(ts)
		if s < 0 || s > e || e > len(tgt) {
			return fmt.Sprintf("candidate %d converts to byte range [%d,%d) of a target of %d bytes: %v", ci, s, e, len(tgt), mr), len(mrs)
		}
		// the range delimits real text: it begins with the first token of the candidate
		// and ends with its last one
		ft, lt := ts.Tokens[mr[0].TargetStart], ts.Tokens[mr[len(mr)-1].TargetEnd-1]
		if s != ft.Offset || e != lt.Offset+len(lt.Text) {
			return fmt.Sprintf("candidate %d converts to byte range [%d,%d) = %q, but its first token %q starts at %d and its last token %q ends at %d", ci, s, e, tgt[s:e], ft.Text, ft.Offset, lt.Text, lt.Offset+len(lt.Text)), len(mrs)
		}
	}
	return "", len(mrs)
}

var vC17Alphabet = []string{"a", "b", " ", ".", "\n", "\xff", "é", "\xef\xbf\xbd", "\x00", "\u00ad", "\u200b", "\ufeff", "\x1b", "\ue000", "\u0085", "\v", " ", ",", "漢", "́", " ", "-", "\xe2\x80",
	// punctuation and symbols that take several bytes
	"—", "“", "”", "…", "«", "§", "·", "¡", "、", "‽", "©", "€", "\xe2\x80\x94x"}

func TestVerifC17(t *testing.T) {
	e := vStart(t, "C17")
	defer e.finish()

	// (1) tokenizer: exhaustive strings over a small hostile alphabet
	L := e.pick(5, 6)
	alpha := append(append([]string{}, vC17Alphabet[:10]...), "—")
	idx := 0
	total := 1
	for l := 0; l < L; l++ {
		total *= len(alpha)
	}
	// block the enumeration so that workers/shards share it
	blocks := 64
	for b := 0; b < blocks; b++ {
		b := b
		e.run(idx, "tokenizer-exhaustive", map[string]interface{}{"block": b, "maxlen": L, "alphabet": strings.Join(alpha, "|")}, func(cs *vCase) {
			n := 0
			for l := 0; l <= L; l++ {
				cnt := 1
				for i := 0; i < l; i++ {
					cnt *= len(alpha)
				}
				for x := b; x < cnt; x += blocks {
					var sb strings.Builder
					y := x
					for i := 0; i < l; i++ {
						sb.WriteString(alpha[y%len(alpha)])
						y /= len(alpha)
					}
					s := sb.String()
					if why := vCheckTokens(s); why != "" {
						cs.hostileInput([]byte(s))
						cs.violation("token-offsets", "Tokenize(%q): %s", s, why)
						return
					}
					n++
				}
			}
			e.count("strings_enumerated", int64(n))
			cs.nontrivial("tok-exh", b, L)
		})
		idx++
	}
	// (2) tokenizer: seeded long strings over the full alphabet + real text
	nrand := e.pick(40000, 1000000)
	for k := 0; k < nrand; k += 50 {
		e.run(idx, "tokenizer-random", map[string]interface{}{"k": k}, func(cs *vCase) {
			r := cs.rng
			for j := 0; j < 50; j++ {
				var sb strings.Builder
				for i, n := 0, r.Intn(60); i < n; i++ {
					if r.Intn(3) == 0 {
						sb.WriteString([]string{"license", "the", "Copyright", "(c)", "2020", "http://x.y/z?q=1", "foo-bar", "it's"}[r.Intn(8)])
					} else {
						sb.WriteString(vC17Alphabet[r.Intn(len(vC17Alphabet))])
					}
				}
				s := sb.String()
				if why := vCheckTokens(s); why != "" {
					cs.hostileInput([]byte(s))
					cs.violation("token-offsets", "Tokenize(%q): %s", s, why)
					return
				}
				e.count("strings_random", 1)
			}
			cs.nontrivial("tok-rand", cs.idx)
		})
		idx++
	}
	// (3) candidate ranges for (source, target) pairs
	npairs := e.pick(300000, 8000000)
	per := 500
	for k := 0; k < npairs; k += per {
		e.run(idx, "candidate-ranges", map[string]interface{}{"k": k}, func(cs *vCase) {
			r := cs.rng
			ncand := 0
			for j := 0; j < per; j++ {
				vocab := 2 + r.Intn(7)
				sep := []string{" ", " ", ", ", ". ", "\n", " \xff "}[r.Intn(6)]
				gen := func(n int) string {
					w := make([]string, n)
					for i := range w {
						w[i] = string(rune('a' + r.Intn(vocab)))
						if r.Intn(10) == 0 {
							w[i] = []string{"é", "漢", "a\xffb", "x.", "q\xef\xbf\xbdr", "\xef\xbf\xbd", "—", "x…", "“a”", "§", "libéré", "naïve", "漢字x"}[r.Intn(13)]
						}
					}
					return strings.Join(w, sep)
				}
				src := gen(3 + r.Intn(38))
				tgt := gen(3 + r.Intn(38))
				if r.Intn(2) == 0 {
					tgt = gen(r.Intn(8)) + sep + src + sep + gen(r.Intn(8))
				}
				why, n := vCheckCandidates(src, tgt)
				if why != "" {
					cs.hostileInput([]byte(src + "\x00" + tgt))
					cs.violation("candidate-range", "source %q target %q: %s", src, tgt, why)
					return
				}
				ncand += n
			}
			e.count("pairs", int64(per))
			e.count("observed_candidate_lists_with_several_candidates", atomic.SwapInt64(&vListsSeen, 0))
			e.count("observed_candidate_lists_not_in_target_order", atomic.SwapInt64(&vListsOutOfOrder, 0))
			e.count("candidates_checked", int64(ncand))
			if ncand > 0 {
				cs.nontrivial("cand", cs.idx)
			}
		})
		idx++
	}
}
