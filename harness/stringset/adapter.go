//go:build verif

package sets

import "fmt"

// adapter: the model-checking engine of sets_common works on int elements.
type vImpl = StringSet

const vSetKind = "StringSet"

func vEl(i int) string { return fmt.Sprintf("e%02d", i) }

func vNew(els ...int) *vImpl {
	s := make([]string, len(els))
	for i, e := range els {
		s[i] = vEl(e)
	}
	return NewStringSet(s...)
}
func vInsert(s *vImpl, e int)        { s.Insert(vEl(e)) }
func vInsert2(s *vImpl, a, b int)    { s.Insert(vEl(a), vEl(b)) }
func vDelete(s *vImpl, e int)        { s.Delete(vEl(e)) }
func vContains(s *vImpl, e int) bool { return s.Contains(vEl(e)) }
func vElements(s *vImpl) []string    { return s.Elements() }
func vSorted(s *vImpl) []string      { return s.Sorted() }
func vSortedWant(els []int) []string {
	out := make([]string, len(els))
	for i, e := range els {
		out[i] = vEl(e)
	}
	return out // els ascending and vEl is order preserving for 0..99
}

// vScribble overwrites the slices Sorted and Elements hand out.
func vScribble(s *vImpl) {
	for _, sl := range [][]string{s.Sorted(), s.Elements()} {
		for k := range sl {
			sl[k] = "~scribbled"
		}
	}
}
