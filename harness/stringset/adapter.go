//go:build verif

package sets

import (
	"fmt"
	"sort"
)

// adapter: the model-checking engine of sets_common works on int elements.
type vImpl = StringSet

const vSetKind = "StringSet"

// element names in both cases, neighbours differing in case only ("e05", "E05"):
// Sorted() is byte order, as sort.Strings gives it
func vEl(i int) string { return fmt.Sprintf("%s%02d", []string{"e", "E"}[i%2], i/2) }

func vNew(els ...int) *vImpl {
	s := make([]string, len(els))
	for i, e := range els {
		s[i] = vEl(e)
	}
	return NewStringSet(s...)
}
func vInsert(s *vImpl, e int)        { s.Insert(vEl(e)) }
func vInsert2(s *vImpl, a, b int)    { s.Insert(vEl(a), vEl(b)) }
func vDelete(s *vImpl, e int)        { s.Delete(vEl(e)) }
func vContains(s *vImpl, e int) bool { return s.Contains(vEl(e)) }
func vElements(s *vImpl) []string    { return s.Elements() }
func vSorted(s *vImpl) []string      { return s.Sorted() }
func vSortedWant(els []int) []string {
	out := make([]string, len(els))
	for i, e := range els {
		out[i] = vEl(e)
	}
	sort.Strings(out)
	return out
}

// vScribble overwrites the slices Sorted and Elements hand out.
func vScribble(s *vImpl) {
	for _, sl := range [][]string{s.Sorted(), s.Elements()} {
		for k := range sl {
			sl[k] = "~scribbled"
		}
	}
}
