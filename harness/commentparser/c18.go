//go:build verif

package commentparser

import (
	"fmt"
	"math/rand"
	"sort"
	"strings"
	"testing"
	"unicode/utf8"

	"github.com/google/licenseclassifier/commentparser/language"
)

// C18 — comment extraction returns exactly the comments of a source file.
//
// Oracle: a reference lexer written for this harness, driven only by the public
// language tables (SingleLineCommentStart, MultilineCommentStart/End,
// QuoteCharacter, NestedComments) and the documented special rules.

type vRC struct {
	S, E int
	Text string
}

// vRefParse is the straightforward reference lexer: at each position — string?
// skip it whole; multi-line start? read to the matching end (nesting for Swift);
// single-line start? read to the end of the line; else advance one rune. An
// unterminated string or multi-line comment ends the scan.
func vRefParse(src string, lang language.Language) []vRC {
	if len(src) == 0 {
		return nil
	}
	if !strings.HasSuffix(src, "\n") {
		src += "\n"
	}
	var out []vRC
	line := 1
	lineStart := 0
	i := 0
	adv := func(n int) {
		for k := 0; k < n; {
			r, sz := utf8.DecodeRuneInString(src[i:])
			if r == '\n' {
				line++
				lineStart = i + sz
			}
			i += sz
			k += sz
		}
	}
	syn := vSyntaxTable[lang]
	sl := []string{syn.single}
	type ml struct{ s, e string }
	mls := []ml{{syn.mstart, syn.mend}}
	if lang == language.SQL {
		my := vSyntaxTable[language.MySQL] // SQL files also take MySQL's delimiters
		sl = append(sl, my.single)
		mls = append(mls, ml{my.mstart, my.mend})
	} else if lang == language.ObjectiveC {
		mt := vSyntaxTable[language.Matlab] // .m files: Objective-C also takes Matlab's delimiters
		sl = append(sl, mt.single)
		mls = append(mls, ml{mt.mstart, mt.mend})
	}
	for i < len(src) {
		r, sz := utf8.DecodeRuneInString(src[i:])
		if (r == '"' || r == '\'' || r == '`') && lang != language.HTML {
			if ok, esc := vQuote(lang, r); ok {
				quote := string(r)
				doc := false
				if lang == language.Python && (strings.HasPrefix(src[i:], "'''") || strings.HasPrefix(src[i:], `"""`)) {
					quote = src[i : i+3]
					doc = i == lineStart // a docstring starts in column 0
				}
				startLine := line
				adv(len(quote))
				var content strings.Builder
				closed := false
				for i < len(src) {
					c, csz := utf8.DecodeRuneInString(src[i:])
					if esc && c == '\\' {
						// an escape: the backslash and the character after it belong to the string
						content.WriteString(src[i : i+csz])
						adv(csz)
						if i < len(src) {
							_, e2 := utf8.DecodeRuneInString(src[i:])
							content.WriteString(src[i : i+e2])
							adv(e2)
						}
						continue
					}
					if strings.HasPrefix(src[i:], quote) {
						adv(len(quote))
						closed = true
						break
					}
					if (lang == language.JavaScript || lang == language.Perl) && c == '\n' {
						closed = true // regex literals: a newline ends the "string"
						break
					}
					content.WriteString(src[i : i+csz])
					adv(csz)
				}
				if !closed {
					return out
				}
				if doc {
					out = append(out, vRC{startLine, line, content.String()})
				}
				continue
			}
		}
		matched := false
		for _, m := range mls {
			if m.s != "" && strings.HasPrefix(src[i:], m.s) {
				startLine := line
				adv(len(m.s))
				nest := 0
				var content strings.Builder
				closed := false
				for i < len(src) {
					if syn.nested && strings.HasPrefix(src[i:], m.s) {
						content.WriteString(m.s)
						adv(len(m.s))
						nest++
						continue
					}
					if strings.HasPrefix(src[i:], m.e) {
						adv(len(m.e))
						if nest > 0 {
							content.WriteString(m.e)
							nest--
							continue
						}
						closed = true
						break
					}
					_, csz := utf8.DecodeRuneInString(src[i:])
					content.WriteString(src[i : i+csz])
					adv(csz)
				}
				if !closed {
					return out
				}
				out = append(out, vRC{startLine, line, content.String()})
				matched = true
				break
			}
		}
		if matched {
			continue
		}
		for _, s := range sl {
			if s != "" && strings.HasPrefix(src[i:], s) {
				startLine := line
				adv(len(s))
				j := strings.IndexByte(src[i:], '\n')
				out = append(out, vRC{startLine, startLine, src[i : i+j]})
				adv(j)
				matched = true
				break
			}
		}
		if matched {
			continue
		}
		adv(sz)
	}
	return out
}

// vSyntax is the harness' own statement of each language's comment and string
// syntax (from the languages' documentation and the comment-style list in
// language.go), so that a slip in the package's tables is not silently shared
// by the oracle. Languages for which the package documents no comment style
// (Unknown, EDIF, LEF, SDC, XDC) have none here either.
type vSyntax struct {
	single, mstart, mend string
	nested               bool
	rawBackquote         bool // `...` is a string without escapes (Go)
}

var (
	vBCPL = vSyntax{single: "//", mstart: "/*", mend: "*/"}
	vHash = vSyntax{single: "#"}
)

var vSyntaxTable = map[language.Language]vSyntax{
	language.Unknown: {}, language.EDIF: {}, language.LEF: {}, language.SDC: {}, language.XDC: {},
	language.AppleScript: {single: "--", mstart: "(*", mend: "*)"},
	language.Assembly:    vBCPL, language.C: vBCPL, language.CSharp: vBCPL, language.Dart: vBCPL, language.Flex: vBCPL,
	language.GLSLF: vBCPL, language.Java: vBCPL, language.JavaScript: vBCPL, language.Kotlin: vBCPL, language.ObjectiveC: vBCPL,
	language.Shader: vBCPL, language.SWIG: vBCPL, language.TypeScript: vBCPL, language.Yacc: vBCPL, language.Verilog: vBCPL,
	language.SystemVerilog: vBCPL, language.SDF: vBCPL, language.SPEF: vBCPL,
	language.Go:    {single: "//", mstart: "/*", mend: "*/", rawBackquote: true},
	language.Swift: {single: "//", mstart: "/*", mend: "*/", nested: true},
	language.Rust:  {single: "//"}, // the package deliberately gives Rust no multi-line style
	language.Batch: {single: "@REM"},
	language.BLIF:  vHash, language.TCL: vHash,
	language.CMake:   {single: "#", mstart: "#[[", mend: "]]"},
	language.Fortran: {single: "!"},
	language.Haskell: {single: "--", mstart: "{-", mend: "-}"},
	language.HTML:    {mstart: "<!--", mend: "-->"}, language.Markdown: {mstart: "<!--", mend: "-->"},
	language.Clojure: {single: ";"}, language.Lisp: {single: ";"},
	language.Ruby: {single: "#", mstart: "=begin", mend: "=end"},
	language.Clif: vHash, language.Elixir: vHash, language.NinjaBuild: vHash, language.Perl: vHash, language.Python: vHash,
	language.R: vHash, language.Shell: vHash, language.Yaml: vHash,
	language.Matlab: {single: "%", mstart: "%{", mend: "%}"},
	language.MySQL:  {single: "#", mstart: "/*", mend: "*/"},
	language.SQL:    {single: "--"},
}

// vCheckTables compares the package's public tables with vSyntaxTable.
func vCheckTables() string {
	for _, l := range vAllLanguages {
		want, ok := vSyntaxTable[l]
		if !ok {
			return fmt.Sprintf("language %d is not in the harness' syntax table (new language?)", int(l))
		}
		if l.SingleLineCommentStart() != want.single || l.MultilineCommentStart() != want.mstart || l.MultilineCommentEnd() != want.mend || l.NestedComments() != want.nested {
			return fmt.Sprintf("language %d: tables say single=%q multi=%q..%q nested=%v, expected single=%q multi=%q..%q nested=%v", int(l),
				l.SingleLineCommentStart(), l.MultilineCommentStart(), l.MultilineCommentEnd(), l.NestedComments(), want.single, want.mstart, want.mend, want.nested)
		}
		for _, q := range []rune{'"', '\'', '`', 'a', '/'} {
			ok, esc := l.QuoteCharacter(q)
			wok := q == '"' || q == '\'' || (q == '`' && want.rawBackquote)
			wesc := q == '"' || q == '\''
			if ok != wok || (ok && esc != wesc) {
				return fmt.Sprintf("language %d: QuoteCharacter(%q) = (%v, %v), expected (%v, %v)", int(l), q, ok, esc, wok, wesc)
			}
		}
	}
	return ""
}

func vQuote(lang language.Language, r rune) (bool, bool) {
	switch r {
	case '"', '\'':
		return true, true
	case '`':
		if vSyntaxTable[lang].rawBackquote {
			return true, false
		}
	}
	return false, false
}

// vFFFD maps every invalid byte to U+FFFD (the implementation builds comment
// text rune by rune).
func vFFFD(s string) string {
	if utf8.ValidString(s) {
		return s
	}
	var sb strings.Builder
	for i := 0; i < len(s); {
		r, sz := utf8.DecodeRuneInString(s[i:])
		sb.WriteRune(r)
		i += sz
	}
	return sb.String()
}

func vCompareParse(src string, lang language.Language) string {
	var got []vRC
	// the caller's array is larger than the slice handed in (buf[:n]): neither the
	// slice nor the bytes behind it may be written to
	backing := make([]byte, len(src)+8)
	copy(backing, src)
	for i := len(src); i < len(backing); i++ {
		backing[i] = '#'
	}
	for _, c := range Parse(backing[:len(src)], lang) {
		got = append(got, vRC{c.StartLine, c.EndLine, c.Text})
	}
	if string(backing[:len(src)]) != src || string(backing[len(src):]) != "########" {
		return fmt.Sprintf("Parse modified the caller's byte array: %q behind the slice, slice intact: %v", backing[len(src):], string(backing[:len(src)]) == src)
	}
	want := vRefParse(src, lang)
	if len(got) != len(want) {
		return fmt.Sprintf("Parse found %d comment(s) %v, the reference lexer %d %v", len(got), got, len(want), want)
	}
	for i := range got {
		if got[i].S != want[i].S || got[i].E != want[i].E || vFFFD(got[i].Text) != vFFFD(want[i].Text) {
			return fmt.Sprintf("comment %d: Parse %v, reference %v", i, got[i], want[i])
		}
	}
	return ""
}

var vAllLanguages = func() []language.Language {
	var out []language.Language
	for l := language.Unknown; l <= language.Yaml; l++ {
		out = append(out, l)
	}
	return out
}()

// vAlphabet: the language's delimiter characters plus quote characters,
// backslash, newline, one letter and a space.
func vAlphabet(lang language.Language, max int) []string {
	set := map[string]bool{}
	add := func(s string) {
		for _, r := range s {
			set[string(r)] = true
		}
	}
	add(lang.SingleLineCommentStart())
	add(lang.MultilineCommentStart())
	add(lang.MultilineCommentEnd())
	if lang == language.SQL {
		add(language.MySQL.SingleLineCommentStart() + language.MySQL.MultilineCommentStart() + language.MySQL.MultilineCommentEnd())
	}
	if lang == language.ObjectiveC {
		add(language.Matlab.SingleLineCommentStart() + language.Matlab.MultilineCommentStart() + language.Matlab.MultilineCommentEnd())
	}
	var out []string
	for k := range set {
		out = append(out, k)
	}
	sort.Strings(out)
	extras := []string{"\n", "\"", "a", "\\", "'", " "}
	if lang == language.Go {
		extras = []string{"\n", "\"", "`", "a", "\\", "'"}
	}
	// a carriage return takes the place of the least interesting extra where the
	// delimiters leave room for only a few
	extras = append([]string{"\n", "\r"}, extras[1:]...)
	for _, x := range extras {
		if len(out) >= max {
			break
		}
		if !set[x] {
			out = append(out, x)
		}
	}
	return out
}

// vProgram assembles a long random program from lexemes, with adjacency forced.
func vProgram(r *rand.Rand, lang language.Language, n int) string {
	lex := []string{"\r\n", "\r", "a", "x1", " ", " ", "\n", "\n", "\"", "'", "\"str\"", "'c'", "\"a\\\"b\"", "\\", "é", "漢", "\xff", "0", "(", ")", ";", "\"\"", "''", "\"/*\"", "\"//\"", "'#'"}
	add := func(s string) {
		if s != "" {
			lex = append(lex, s, s, s)
		}
	}
	add(lang.SingleLineCommentStart())
	add(lang.MultilineCommentStart())
	add(lang.MultilineCommentEnd())
	if lang.MultilineCommentStart() != "" {
		add(lang.MultilineCommentStart() + lang.MultilineCommentEnd())
		add(lang.MultilineCommentStart() + " c " + lang.MultilineCommentEnd())
	}
	if lang == language.SQL {
		add("#")
		add("/*")
		add("*/")
	}
	if lang == language.ObjectiveC {
		add("%")
		add("%{")
		add("%}")
	}
	if lang == language.Python {
		add("\"\"\"")
		add("'''")
		add("\n\"\"\"doc\\n\"\"\"")
	}
	if lang == language.Go {
		add("`")
		add("`raw // not`")
	}
	var sb strings.Builder
	for i := 0; i < n; i++ {
		sb.WriteString(lex[r.Intn(len(lex))])
	}
	return sb.String()
}

// reference grouping: a run continues while next.StartLine <= prev.StartLine+1
// (adjacency as the pinned TestCommentParser_ChunkIterator defines it).
func vRefChunks(c Comments) [][]*Comment {
	var out [][]*Comment
	for i := 0; i < len(c); i++ {
		if i == 0 || c[i].StartLine > c[i-1].StartLine+1 {
			out = append(out, nil)
		}
		out[len(out)-1] = append(out[len(out)-1], c[i])
	}
	return out
}

func vCheckChunks(c Comments) string {
	var got [][]*Comment
	n := 0
	for ch := range c.ChunkIterator() {
		got = append(got, []*Comment(ch))
		n += len(ch)
		if n > len(c)+5 {
			return "ChunkIterator delivers more comments than exist"
		}
	}
	// every comment exactly once, in order
	k := 0
	for _, ch := range got {
		if len(ch) == 0 {
			return "ChunkIterator delivered an empty chunk"
		}
		for _, cm := range ch {
			if k >= len(c) || c[k] != cm {
				return fmt.Sprintf("chunks do not concatenate to the comment list (position %d)", k)
			}
			k++
		}
	}
	if k != len(c) {
		return fmt.Sprintf("ChunkIterator delivered %d of %d comments", k, len(c))
	}
	want := vRefChunks(c)
	if len(want) != len(got) {
		return fmt.Sprintf("%d chunks, want %d maximal runs", len(got), len(want))
	}
	for i := range want {
		if len(want[i]) != len(got[i]) {
			return fmt.Sprintf("chunk %d has %d comments, the maximal run has %d", i, len(got[i]), len(want[i]))
		}
	}
	return ""
}

func TestVerifC18(t *testing.T) {
	e := vStart(t, "C18")
	defer e.finish()
	idx := 0
	e.run(idx, "language-tables", map[string]interface{}{"languages": len(vAllLanguages)}, func(cs *vCase) {
		if why := vCheckTables(); why != "" {
			cs.violation("language-table", "%s", why)
			return
		}
		cs.nontrivial("tables")
	})
	idx++
	// (1) exhaustive short programs per language
	for _, lang := range vAllLanguages {
		lang := lang
		alpha := vAlphabet(lang, 9)
		L := e.pick(6, 7)
		if len(alpha) > 8 {
			L = e.pick(5, 6)
		}
		// one case per first symbol
		for first := range alpha {
			first := first
			e.run(idx, fmt.Sprintf("exhaustive-lang%d", int(lang)), map[string]interface{}{"language": int(lang), "alphabet": strings.Join(alpha, ""), "maxlen": L, "first": alpha[first]}, func(cs *vCase) {
				n := 0
				buf := make([]int, L)
				buf[0] = first
				var rec func(d int) bool
				rec = func(d int) bool {
					var sb strings.Builder
					for i := 0; i <= d; i++ {
						sb.WriteString(alpha[buf[i]])
					}
					src := sb.String()
					n++
					if why := vCompareParse(src, lang); why != "" {
						cs.hostileInput([]byte(src))
						cs.violation("parse-differs-from-reference", "language %d, source %q: %s", int(lang), src, why)
						return false
					}
					if d == L-1 {
						return true
					}
					for k := range alpha {
						buf[d+1] = k
						if !rec(d + 1) {
							return false
						}
					}
					return true
				}
				rec(0)
				e.count("programs_enumerated", int64(n))
				cs.nontrivial("exh", int(lang), first)
			})
			idx++
		}
	}
	// (2) seeded long programs
	nprog := e.pick(200, 2000)
	for _, lang := range vAllLanguages {
		lang := lang
		for k := 0; k < nprog; k += 20 {
			e.run(idx, fmt.Sprintf("random-lang%d", int(lang)), map[string]interface{}{"language": int(lang)}, func(cs *vCase) {
				r := cs.rng
				for j := 0; j < 20; j++ {
					src := vProgram(r, lang, 200+r.Intn(1800))
					cs.hostileInput([]byte(src))
					if why := vCompareParse(src, lang); why != "" {
						cs.violation("parse-differs-from-reference", "language %d, program of %d bytes: %s", int(lang), len(src), why)
						return
					}
					// chunks of the parser's real output
					if why := vCheckChunks(Parse([]byte(src), lang)); why != "" {
						cs.violation("chunks", "language %d: %s", int(lang), why)
						return
					}
					e.count("programs_random", 1)
				}
				cs.nontrivial("rand", int(lang), cs.idx)
			})
			idx++
		}
	}
	// (3) ChunkIterator: exhaustive comment lists of <= N comments, gaps 0..3, lengths 1..3
	N := e.pick(5, 6)
	for firstGap := 0; firstGap < 4; firstGap++ {
		for firstLen := 1; firstLen <= 3; firstLen++ {
			firstGap, firstLen := firstGap, firstLen
			e.run(idx, "chunks-exhaustive", map[string]interface{}{"max_comments": N, "first_gap": firstGap, "first_len": firstLen}, func(cs *vCase) {
				n := 0
				type cm struct{ gap, ln int }
				var rec func(list []cm) bool
				rec = func(list []cm) bool {
					var c Comments
					line := 1
					for _, x := range list {
						line += x.gap
						c = append(c, &Comment{StartLine: line, EndLine: line + x.ln - 1, Text: "t"})
						line += x.ln - 1
						if x.gap == 0 && len(c) > 1 {
							// two comments on one line: same StartLine as the previous one's EndLine
						}
					}
					n++
					if why := vCheckChunks(c); why != "" {
						var desc []string
						for _, x := range c {
							desc = append(desc, fmt.Sprintf("[%d-%d]", x.StartLine, x.EndLine))
						}
						cs.violation("chunks", "comments %s: %s", strings.Join(desc, " "), why)
						return false
					}
					if len(list) == N {
						return true
					}
					for g := 0; g < 4; g++ {
						for l := 1; l <= 3; l++ {
							if !rec(append(append([]cm{}, list...), cm{g, l})) {
								return false
							}
						}
					}
					return true
				}
				rec([]cm{{firstGap, firstLen}})
				e.count("comment_lists", int64(n))
				cs.nontrivial("chunks", firstGap, firstLen)
			})
			idx++
		}
	}
}
