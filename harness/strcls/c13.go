//go:build verif

package stringclassifier

import (
	"fmt"
	"math/rand"
	"strings"
	"testing"
	"unicode/utf8"

	"github.com/google/licenseclassifier/stringclassifier/searchset/tokenizer"
)

// C13 — v1 string classifier finds verbatim occurrences exactly; any value is
// accepted.
//
// Every case runs in a child process of its own shard with ONE worker, because
// MultipleMatch computes in goroutines: a panic there cannot be recovered and
// kills the process; the driver attributes the death to the case in flight.

func sVocab(r *rand.Rand, n int, prefix string) []string {
	cons := "bcdfghklmnprstvw"
	vow := "aeiou"
	seen := map[string]bool{}
	var out []string
	for len(out) < n {
		var sb strings.Builder
		sb.WriteString(prefix)
		for i, k := 0, 1+r.Intn(3); i < k; i++ {
			sb.WriteByte(cons[r.Intn(len(cons))])
			sb.WriteByte(vow[r.Intn(len(vow))])
		}
		w := sb.String()
		if !seen[w] {
			seen[w] = true
			out = append(out, w)
		}
	}
	return out
}

var sMeta = []string{"(", ")", "[", "]", "{", "}", "*", "+", "?", ".", "\\", "|", "^", "$", "a(b", "a[b", "x{2}", "foo+", "(c)", "\\d", "[a-z", "a|b", "^x$", ".*", "(?i)x", "\\", "a\\", "(((", "{,}", "x**"}
var sUni = []string{"é", "ß", "漢字", "😀", "naïve", "Ωmega", "“quoted”", "a b", "é"}
var sBad = []string{"\xff", "a\xffb", "\xc3", "\xe2\x80", "\xf0\x9f\x98", "x\xed\xa0\x80y", "\xfe\xfe"}

// sValue builds one known value of about n tokens.
func sValue(r *rand.Rand, vocab []string, n int, flavour int) string {
	var parts []string
	for i := 0; i < n; i++ {
		w := vocab[r.Intn(len(vocab))]
		switch flavour {
		case 1: // punctuation
			if r.Intn(4) == 0 {
				w += []string{",", ".", ";", ":", "!", "-x", "'s"}[r.Intn(7)]
			}
		case 2: // regexp metacharacters
			if r.Intn(3) == 0 {
				w = sMeta[r.Intn(len(sMeta))]
			}
		case 3: // unicode
			if r.Intn(3) == 0 {
				w = sUni[r.Intn(len(sUni))]
			}
		case 4: // invalid UTF-8
			if r.Intn(3) == 0 {
				w = sBad[r.Intn(len(sBad))]
			}
		}
		parts = append(parts, w)
	}
	return strings.Join(parts, " ")
}

func sFiller(r *rand.Rand, vocab []string, n int) string {
	w := make([]string, n)
	for i := range w {
		w[i] = vocab[r.Intn(len(vocab))]
	}
	return strings.Join(w, " ")
}

// sCount counts ALL occurrences of sub in s, overlapping ones included (a value made
// of repeated tokens, or a filler word ending in the value's first token, can create
// shifted occurrences that make the construction ambiguous).
func sCount(s, sub string) int {
	if sub == "" {
		return 0
	}
	n := 0
	for i := 0; ; {
		j := strings.Index(s[i:], sub)
		if j < 0 {
			return n
		}
		n++
		i += j + 1
	}
}

func sFmtMatches(ms Matches) string {
	var sb strings.Builder
	for _, m := range ms {
		fmt.Fprintf(&sb, "{%s %v off=%d ext=%d} ", m.Name, m.Confidence, m.Offset, m.Extent)
	}
	return sb.String()
}

func TestVerifC13(t *testing.T) {
	e := vStart(t, "C13")
	defer e.finish()
	n := e.pick(12000, 200000)
	lower := NormalizeFunc(strings.ToLower)
	for idx := 0; idx < n; idx++ {
		idx := idx
		gen := []string{"token-aligned", "token-aligned", "token-aligned", "glued", "hostile-values"}[idx%5]
		e.run(idx, gen, map[string]interface{}{}, func(cs *vCase) {
			r := cs.rng
			thr := []float64{0.5, 0.8, 0.9, 0.95, 1.0}[r.Intn(5)]
			nl := r.Intn(3)
			var norms []NormalizeFunc
			switch nl {
			case 1:
				norms = []NormalizeFunc{FlattenWhitespace}
			case 2:
				norms = []NormalizeFunc{lower, FlattenWhitespace}
			}
			cs.params["thr"] = thr
			cs.params["normalizers"] = []string{"none", "flatten", "lower+flatten"}[nl]
			c := New(thr, norms...)
			vsize := []int{3, 8, 40, 400, 2000}[r.Intn(5)]
			vocabV := sVocab(r, vsize, "")
			vocabF := sVocab(r, 50, "zz") // filler vocabulary, disjoint from the values'
			flavour := r.Intn(5)
			if gen == "hostile-values" {
				flavour = 2 + r.Intn(3)
			}
			nvals := 1 + r.Intn(8)
			var vals, keys []string
			for len(vals) < nvals {
				ntok := []int{1, 1, 2, 3, 5, 8, 15, 30, 60, 90}[r.Intn(10)]
				v := sValue(r, vocabV, ntok, flavour)
				if nl == 0 && r.Intn(4) == 0 {
					v = strings.Replace(v, " ", "  ", 1) // verbatim internal whitespace run
				}
				if r.Intn(3) == 0 && nl == 2 {
					v = strings.ToUpper(v[:1]) + v[1:]
				}
				// registering must never panic (a panic here is caught by the case runner)
				key := fmt.Sprintf("k%d", len(vals))
				cs.hostileInput([]byte("AddValue:" + v))
				if err := c.AddValue(key, v); err != nil {
					cs.violation("addvalue-error", "AddValue(%q, %q) = %v", key, v, err)
					return
				}
				e.count("addvalue_calls", 1)
				vals = append(vals, v)
				keys = append(keys, key)
			}
			// a near-duplicate of a long value under a key that sorts BEFORE the original's
			// (registered last so that the original keeps its key): ranking ties must not
			// cost the verbatim copy its place
			if r.Intn(3) == 0 {
				for i, v := range vals {
					w := strings.Fields(v)
					if len(w) >= 30 {
						w[len(w)/2] += "x" // one character: well under 1 % of the value
						nd := strings.Join(w, " ")
						key := "a" + keys[i] // "ak3" < "k3"
						if err := c.AddValue(key, nd); err == nil {
							vals = append(vals, nd)
							keys = append(keys, key)
						}
						break
					}
				}
			}
			// domain: none of the (normalised) values occurs inside another
			normV := make([]string, len(vals))
			for i, v := range vals {
				normV[i] = c.normalize(v)
			}
			ok := make([]bool, len(vals))
			for i := range vals {
				ok[i] = strings.TrimSpace(normV[i]) == normV[i] && normV[i] != ""
				for j := range vals {
					if i != j && strings.Contains(normV[j], normV[i]) {
						ok[i] = false
					}
				}
			}
			// choose the value to plant
			pi := -1
			for _, i := range r.Perm(len(vals)) {
				if ok[i] {
					pi = i
					break
				}
			}
			if pi < 0 {
				return
			}
			v := vals[pi]
			left := sFiller(r, vocabF, 1+r.Intn(12))
			right := sFiller(r, vocabF, 1+r.Intn(12))
			sep := " "
			if nl > 0 {
				sep = []string{" ", "  ", "\n", " \t "}[r.Intn(4)]
			}
			var unknown string
			copies := 1
			placement := r.Intn(5)
			if gen == "glued" {
				unknown = left + v + right
				placement = 9
			} else {
				switch placement {
				case 0:
					unknown = v + sep + right // at the start
				case 1:
					unknown = left + sep + v // at the very end
				case 2:
					unknown = left + sep + v + sep + right + sep + v + sep + sFiller(r, vocabF, 3)
					copies = 2
				default:
					unknown = left + sep + v + sep + right
				}
			}
			// sometimes a SECOND known value follows closely (a short one before a long one
			// and vice versa): both copies must be reported
			second := -1
			if gen != "glued" && copies == 1 && r.Intn(3) == 0 {
				for _, j := range r.Perm(len(vals)) {
					if j != pi && ok[j] {
						second = j
						break
					}
				}
				if second >= 0 {
					if r.Intn(2) == 0 {
						unknown = left + sep + v + sep + vals[second] + sep + right
					} else {
						unknown = left + sep + vals[second] + sep + v + sep + right
					}
				}
			}
			cs.params["placement"] = placement
			cs.params["value"] = v
			cs.hostileInput([]byte(unknown))
			normU := c.normalize(unknown)
			if sCount(normU, normV[pi]) != copies {
				return // the construction is not unambiguous (tiny vocabularies): skip
			}
			for j := range vals {
				if j != pi && j != second && strings.Contains(normU, normV[j]) {
					return // another value occurs verbatim as well: outside this case's oracle
				}
			}
			if second >= 0 {
				if sCount(normU, normV[second]) != 1 {
					return
				}
				// the two occurrences must not touch or overlap (values made of repeated
				// tokens can occur across the seam): otherwise the construction is ambiguous
				o1, o2 := strings.Index(normU, normV[pi]), strings.Index(normU, normV[second])
				if o1 < o2+len(normV[second])+1 && o2 < o1+len(normV[pi])+1 {
					return
				}
			}
			ms := c.MultipleMatch(unknown)
			e.count("multiplematch_calls", 1)
			// bounds invariants on everything returned
			for _, m := range ms {
				if !(m.Confidence > 0 && m.Confidence <= 1) {
					cs.violation("confidence-out-of-range", "match %+v for unknown %q", *m, unknown)
					return
				}
				if m.Offset < 0 || m.Extent < 0 || m.Offset+m.Extent > len(normU) {
					cs.violation("range-outside-unknown", "match %+v but the normalised unknown has %d bytes: %q", *m, len(normU), unknown)
					return
				}
			}
			// the planted copies
			pos := 0
			allFound := true
			var missing string
			for k := 0; k < copies; k++ {
				off := strings.Index(normU[pos:], normV[pi]) + pos
				found := false
				for _, m := range ms {
					if m.Name == keys[pi] && m.Confidence == 1.0 && m.Offset == off && m.Extent == len(normV[pi]) {
						found = true
					}
				}
				if !found {
					allFound = false
					missing = fmt.Sprintf("copy %d of %q expected at off=%d ext=%d with confidence 1.0", k, normV[pi], off, len(normV[pi]))
				}
				pos = off + len(normV[pi])
			}
			if allFound && second >= 0 {
				off := strings.Index(normU, normV[second])
				found := false
				for _, m := range ms {
					if m.Name == keys[second] && m.Confidence == 1.0 && m.Offset == off && m.Extent == len(normV[second]) {
						found = true
					}
				}
				if !found {
					allFound = false
					missing = fmt.Sprintf("second value %q expected at off=%d ext=%d with confidence 1.0 (first value %q was reported)", normV[second], off, len(normV[second]), normV[pi])
				}
				e.count("two_value_cases", 1)
			}
			if !allFound {
				if gen == "glued" {
					// KF-C13-1 signature: a boundary of the occurrence falls strictly inside a
					// token AND the value is reported with exactly the whole-token range that
					// encloses the occurrence (the documented token granularity); a match that
					// does not enclose the copy, or no match at all, is not this finding
					off := strings.Index(normU, normV[pi])
					end := off + len(normV[pi])
					inside := false
					wantStart, wantEnd := off, end
					for _, tk := range tokenizer.Tokenize(normU) {
						ts, te := tk.Offset, tk.Offset+len(tk.Text)
						if (ts < off && off < te) || (ts < end && end < te) {
							inside = true
						}
						if ts <= off && off < te {
							wantStart = ts
						}
						if ts < end && end <= te {
							wantEnd = te
						}
					}
					encloses := false
					for _, m := range ms {
						if m.Name == keys[pi] && m.Offset == wantStart && m.Offset+m.Extent == wantEnd {
							encloses = true
						}
					}
					if inside && !encloses {
						// token granularity can also mean "nothing to report": the whole-token
						// range scores zero against the value (a tiny value inside a long token)
						any := false
						for _, m := range ms {
							if m.Name == keys[pi] {
								any = true
							}
						}
						if !any && wantStart < wantEnd && levDist(normU[wantStart:wantEnd], normV[pi]) <= 0 {
							encloses = true
						}
					}
					if inside && encloses {
						cs.knownFinding("KF-C13-1", "glued-copy-token-granular", "%s; got %s", missing, sFmtMatches(ms))
						cs.nontrivial(unknown)
						return
					}
				}
				cs.violation("verbatim-copy-not-reported-exactly", "thr=%v normalizers=%v: %s; MultipleMatch(%q) = %s", thr, cs.params["normalizers"], missing, unknown, sFmtMatches(ms))
				return
			}
			// NearestMatch of a string equal to a known value
			if utf8.ValidString(v) || true {
				nm := c.NearestMatch(v)
				e.count("nearestmatch_calls", 1)
				if nm == nil || nm.Name != keys[pi] || nm.Confidence != 1.0 {
					// equal normalised values under another key are excluded by the domain rule above
					cs.violation("nearestmatch-of-known-value", "NearestMatch(%q) = %+v, want {%s 1.0}", v, nm, keys[pi])
					return
				}
				// the classifier stays usable after the exact-match answer: the same
				// MultipleMatch again (must return, and the same), a further value registered
				// and found (a lock kept by the early return would block both forever)
				if again := sFmtMatches(c.MultipleMatch(unknown)); again != sFmtMatches(ms) {
					cs.violation("multiplematch-differs-after-nearestmatch", "MultipleMatch(%q) after NearestMatch of a known value = %s, before: %s", unknown, again, sFmtMatches(ms))
					return
				}
				if idx%4 == 0 {
					extra := "zzq" + fmt.Sprint(idx) + " yyq xxq wwq"
					if err := c.AddValue("extra-key", extra); err != nil {
						cs.violation("addvalue-after-nearestmatch", "AddValue after NearestMatch failed: %v", err)
						return
					}
					if nm2 := c.NearestMatch(FlattenWhitespace(extra)); nm2 == nil || nm2.Confidence != 1.0 {
						cs.violation("nearestmatch-of-known-value", "NearestMatch of the value just added = %+v", nm2)
						return
					}
				}
				e.count("calls_after_nearestmatch", 1)
			}
			cs.nontrivial(unknown, thr, nl)
		})
	}
}
