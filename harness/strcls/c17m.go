//go:build verif

package stringclassifier

import (
	"fmt"
	"strings"
	"testing"
)

// C17 (classifier part) — "a Match's Offset/Extent can always be used to slice
// the normalised input": for arbitrary (known values, unknown text) pairs,
// including verbatim occurrences that begin or end in the middle of a token,
// every match returned by MultipleMatch/NearestMatch lies inside the
// normalised unknown text, and no call panics. One worker per process: the
// classifier computes in goroutines of its own.
func TestVerifC17Matches(t *testing.T) {
	e := vStart(t, "C17")
	defer e.finish()
	n := e.pick(6000, 100000)
	for idx := 0; idx < n; idx++ {
		idx := idx
		e.run(100000+idx, "match-ranges", map[string]interface{}{}, func(cs *vCase) {
			r := cs.rng
			c := New([]float64{0.5, 0.8, 0.95}[r.Intn(3)], FlattenWhitespace)
			vocab := sVocab(r, []int{3, 6, 30, 300}[r.Intn(4)], "")
			nk := 1 + r.Intn(4)
			var vals []string
			for k := 0; k < nk; k++ {
				v := sValue(r, vocab, []int{1, 1, 2, 3, 6, 12, 30}[r.Intn(7)], r.Intn(5))
				vals = append(vals, v)
				c.AddValue(fmt.Sprintf("k%d", k), v)
			}
			v := vals[r.Intn(len(vals))]
			pre := sFiller(r, vocab, r.Intn(8))
			post := sFiller(r, vocab, r.Intn(8))
			var unknown string
			switch r.Intn(7) {
			case 0: // occurrence begins in the middle of a token
				unknown = pre + " x" + v + " " + post
			case 1: // ends in the middle of a token
				unknown = pre + " " + v + "x " + post
			case 2: // strictly inside one token
				unknown = pre + " sub" + v + "d " + post
			case 3: // glued to punctuation
				unknown = pre + " (" + v + ")," + post
			case 4: // at the very end, glued
				unknown = pre + "q" + v
			case 5: // an edited copy (fuzzy path)
				w := strings.Fields(v)
				if len(w) > 2 {
					w[r.Intn(len(w))] = "zz"
				}
				unknown = pre + " " + strings.Join(w, " ") + " " + post
			default:
				unknown = pre + " " + v + " " + post + " " + v
			}
			cs.hostileInput([]byte(strings.Join(vals, "\x00") + "\x00\x00" + unknown))
			norm := c.normalize(unknown)
			ms := c.MultipleMatch(unknown)
			for _, m := range ms {
				if m.Offset < 0 || m.Extent < 0 || m.Offset+m.Extent > len(norm) {
					cs.violation("match-range-outside-input", "MultipleMatch(%q) with known values %q returned %+v; the normalised input has %d bytes", unknown, vals, *m, len(norm))
					return
				}
				_ = norm[m.Offset : m.Offset+m.Extent]
			}
			if nm := c.NearestMatch(unknown); nm != nil && (nm.Offset < 0 || nm.Extent < 0 || nm.Offset+nm.Extent > len(norm)) {
				cs.violation("match-range-outside-input", "NearestMatch(%q) returned %+v; the normalised input has %d bytes", unknown, *nm, len(norm))
				return
			}
			// a text that equals a known value only AFTER normalisation (re-flowed, extra
			// blanks): the range still refers to the normalised text
			reflowed := strings.ReplaceAll(v, " ", []string{"  ", "\n", " \t ", "\r\n"}[r.Intn(4)])
			if r.Intn(2) == 0 {
				reflowed = "  " + reflowed + " \n"
			}
			nr := c.normalize(reflowed)
			if nm := c.NearestMatch(reflowed); nm != nil && (nm.Offset < 0 || nm.Extent < 0 || nm.Offset+nm.Extent > len(nr)) {
				cs.violation("match-range-outside-input", "NearestMatch(%q) returned %+v; the normalised input has %d bytes", reflowed, *nm, len(nr))
				return
			}
			for _, m := range c.MultipleMatch(reflowed) {
				if m.Offset < 0 || m.Extent < 0 || m.Offset+m.Extent > len(nr) {
					cs.violation("match-range-outside-input", "MultipleMatch(%q) returned %+v; the normalised input has %d bytes", reflowed, *m, len(nr))
					return
				}
			}
			e.count("match_ranges_checked", int64(len(ms)))
			if len(ms) > 0 {
				cs.nontrivial(unknown)
			}
		})
	}
}
