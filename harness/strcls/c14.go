//go:build verif

package stringclassifier

import (
	"encoding/json"
	"fmt"
	"math/rand"
	"os"
	"sort"
	"strings"
	"sync"
	"testing"
	"time"
)

// C14 — v1 classifiers are safe for concurrent use (stringclassifier part).
//
// Monitors: (1) the Go race detector (this harness is built with -race by the
// driver, which parses the GORACE log files); (2) recorded histories of
// AddValue / MultipleMatch / NearestMatch calls, checked offline for
// linearizability against a per-key boolean model with porcupine
// (/verif/judge); (3) differential for read-only phases: concurrent results
// equal the results of the same calls made alone.

type sOp struct {
	Client int    `json:"client"`
	Op     string `json:"op"` // add | mm | nm
	Key    int    `json:"key"`
	Call   int64  `json:"call"`
	Ret    int64  `json:"ret"`
	Out    bool   `json:"out"`   // add: succeeded; mm/nm: the key's value was reported
	Other  string `json:"other"` // unexpected extra information (names that must not appear)
}

func sNames(ms Matches) []string {
	seen := map[string]bool{}
	for _, m := range ms {
		seen[m.Name] = true
	}
	var out []string
	for n := range seen {
		out = append(out, n)
	}
	sort.Strings(out)
	return out
}

func TestVerifC14(t *testing.T) {
	e := vStart(t, "C14")
	defer e.finish()
	e.everyShard = true
	nh := e.pick(60, 480)
	histDir := os.Getenv("VERIF_HISTDIR")
	for idx := 0; idx < nh; idx++ {
		idx := idx
		gen := "history"
		if idx%6 == 4 {
			gen = "readonly-storm"
		}
		if idx%6 == 5 {
			gen = "similar-storm"
		}
		e.run(idx, gen, map[string]interface{}{"process": e.shard}, func(cs *vCase) {
			r := rand.New(rand.NewSource(vCaseSeed(e.seed*977+int64(e.shard), "C14", idx)))
			nkeys := 2 + r.Intn(4)
			G := []int{2, 4, 8, 16}[r.Intn(4)]
			// disjoint vocabularies per key: s_k contains v_k only
			vals := make([]string, nkeys)
			unknowns := make([]string, nkeys)
			filler := sVocab(r, 60, "zz")
			for k := 0; k < nkeys; k++ {
				voc := sVocab(r, 30, fmt.Sprintf("k%c", 'a'+k))
				vals[k] = sFiller(r, voc, 40+r.Intn(200))
				unknowns[k] = sFiller(r, filler, 5+r.Intn(20)) + " " + vals[k] + " " + sFiller(r, filler, 5+r.Intn(20))
			}
			c := New(0.8, FlattenWhitespace)
			key := func(k int) string { return fmt.Sprintf("key%d", k) }
			if gen == "similar-storm" {
				// many known values that all resemble the text: every value has candidate
				// ranges in every call, so that (values x callers) comparisons are in
				// flight at once.  Oracles: the calls return (watchdog), the race detector,
				// and - when the result of the call made alone has no equal confidences -
				// the concurrent result equals it.
				nv := []int{12, 20, 36, 48}[r.Intn(4)]
				G := []int{2, 4, 6, 8, 12}[r.Intn(5)]
				voc := sVocab(r, 80, "s")
				base := strings.Fields(sFiller(r, voc, 60+r.Intn(60)))
				mk := func(edits int) string {
					w := append([]string{}, base...)
					for i := 0; i < edits; i++ {
						w[r.Intn(len(w))] = voc[r.Intn(len(voc))] + "x"
					}
					return strings.Join(w, " ")
				}
				ref := New(0.8, FlattenWhitespace)
				for k := 0; k < nv; k++ {
					v := mk(k % 9)
					c.AddValue(key(k), v)
					ref.AddValue(key(k), v)
				}
				texts := make([]string, 4)
				for i := range texts {
					texts[i] = sFiller(r, filler, 3+r.Intn(10)) + " " + mk(i) + " " + sFiller(r, filler, 3+r.Intn(10))
				}
				want := make([]string, len(texts))
				judged := make([]bool, len(texts))
				for i, tx := range texts {
					ms := ref.MultipleMatch(tx)
					want[i] = sFmtMatches(ms)
					judged[i] = want[i] == sFmtMatches(ref.MultipleMatch(tx))
					seen := map[float64]bool{}
					for _, m := range ms {
						if seen[m.Confidence] {
							judged[i] = false // equal confidences: the order is not defined
						}
						seen[m.Confidence] = true
					}
				}
				var wg sync.WaitGroup
				start := make(chan struct{})
				errs := make(chan string, G*8)
				var nj, nslow int64
				var cmu sync.Mutex
				for g := 0; g < G; g++ {
					wg.Add(1)
					go func(g int) {
						defer wg.Done()
						<-start
						for i := 0; i < 3; i++ {
							k := (g + i) % len(texts)
							t0 := time.Now()
							got := sFmtMatches(c.MultipleMatch(texts[k]))
							dt := time.Since(t0)
							if !judged[k] {
								continue
							}
							cmu.Lock()
							nj++
							cmu.Unlock()
							if got != want[k] {
								if dt > 400*time.Millisecond {
									// the diff library works against a wall-clock deadline
									cmu.Lock()
									nslow++
									cmu.Unlock()
									continue
								}
								errs <- fmt.Sprintf("MultipleMatch(text %d) = %s, alone: %s", k, got, want[k])
							}
						}
					}(g)
				}
				close(start)
				wg.Wait()
				close(errs)
				for s := range errs {
					cs.violation("concurrent-result-differs", "%d goroutines on a classifier with %d similar values: %s", G, nv, s)
					return
				}
				e.count("similar_storm_calls", int64(G*3))
				e.count("similar_storm_calls_judged", nj)
				e.count("calls_not_judged_slow", nslow)
				cs.observe("values", nv)
				cs.observe("callers", G)
				cs.nontrivial("sim", idx, e.shard)
				return
			}
			if gen == "readonly-storm" {
				if idx%12 == 4 {
					// every other read-only storm: the first value is license-sized (3200 words,
					// over 20 KB), so that whatever the package does differently for large
					// texts happens in several goroutines at once. Own PRNG: r is not touched.
					r2 := rand.New(rand.NewSource(vCaseSeed(e.seed*977+int64(e.shard), "C14big", idx)))
					big := sFiller(r2, sVocab(r2, 400, "big"), 3200)
					unknowns[0] = strings.Replace(unknowns[0], vals[0], big, 1)
					vals[0] = big
					e.count("readonly_storms_with_a_value_over_20KB", 1)
				}
				for k := range vals {
					c.AddValue(key(k), vals[k])
				}
				// sequential reference (this also builds the lazy search sets of a twin
				// classifier; the shared one stays lazy so that the storm races on it)
				ref := New(0.8, FlattenWhitespace)
				for k := range vals {
					ref.AddValue(key(k), vals[k])
				}
				want := make([]string, nkeys)
				for k := range vals {
					want[k] = sFmtMatches(ref.MultipleMatch(unknowns[k]))
				}
				var wg sync.WaitGroup
				start := make(chan struct{})
				errs := make(chan string, G*8)
				for g := 0; g < G; g++ {
					wg.Add(1)
					go func(g int) {
						defer wg.Done()
						<-start
						for i := 0; i < 6; i++ {
							k := (g + i) % nkeys
							if i%3 == 2 {
								if nm := c.NearestMatch(vals[k]); nm.Name != key(k) || nm.Confidence != 1.0 {
									errs <- fmt.Sprintf("NearestMatch(v%d) = %+v", k, *nm)
								}
								continue
							}
							if got := sFmtMatches(c.MultipleMatch(unknowns[k])); got != want[k] {
								errs <- fmt.Sprintf("MultipleMatch(s%d) = %s, alone: %s", k, got, want[k])
							}
						}
					}(g)
				}
				close(start)
				wg.Wait()
				close(errs)
				for s := range errs {
					cs.violation("concurrent-result-differs", "%d goroutines on a classifier with lazy search sets: %s", G, s)
					return
				}
				e.count("readonly_storm_calls", int64(G*6))
				cs.nontrivial("ro", idx, e.shard)
				return
			}
			// history: concurrent AddValue / MultipleMatch / NearestMatch on few keys
			t0 := time.Now()
			hist := make([][]sOp, G)
			var wg sync.WaitGroup
			start := make(chan struct{})
			opsPer := 200 / G
			if opsPer < 6 {
				opsPer = 6
			}
			seeds := make([]int64, G)
			for g := range seeds {
				seeds[g] = r.Int63()
			}
			for g := 0; g < G; g++ {
				wg.Add(1)
				go func(g int) {
					defer wg.Done()
					gr := rand.New(rand.NewSource(seeds[g]))
					<-start
					for i := 0; i < opsPer; i++ {
						k := gr.Intn(nkeys)
						op := sOp{Client: g, Key: k}
						switch x := gr.Intn(10); {
						case x < 3:
							op.Op = "add"
							op.Call = int64(time.Since(t0))
							err := c.AddValue(key(k), vals[k])
							op.Ret = int64(time.Since(t0))
							op.Out = err == nil
						case x < 8:
							op.Op = "mm"
							op.Call = int64(time.Since(t0))
							ms := c.MultipleMatch(unknowns[k])
							op.Ret = int64(time.Since(t0))
							for _, n := range sNames(ms) {
								if n == key(k) {
									op.Out = true
								} else {
									op.Other += n + " "
								}
							}
							// when reported, the copy must be exact
							for _, m := range ms {
								if m.Name == key(k) && m.Confidence != 1.0 {
									op.Other += fmt.Sprintf("conf=%v ", m.Confidence)
								}
							}
						default:
							op.Op = "nm"
							op.Call = int64(time.Since(t0))
							nm := c.NearestMatch(vals[k])
							op.Ret = int64(time.Since(t0))
							op.Out = nm != nil && nm.Name == key(k) && nm.Confidence == 1.0
						}
						hist[g] = append(hist[g], op)
					}
				}(g)
			}
			close(start)
			wg.Wait()
			var all []sOp
			for _, h := range hist {
				all = append(all, h...)
			}
			for _, op := range all {
				if op.Other != "" {
					cs.violation("foreign-result", "%s on key %d reported %q although only value %d occurs in the text", op.Op, op.Key, op.Other, op.Key)
					return
				}
			}
			name := fmt.Sprintf("hist_%d_%d_%d.json", e.shard, idx, os.Getpid())
			if histDir != "" {
				b, _ := json.Marshal(map[string]interface{}{"id": fmt.Sprintf("p%d/h%d", e.shard, idx), "idx": idx, "process": e.shard, "clients": G, "keys": nkeys, "ops": all})
				os.WriteFile(histDir+"/"+name, b, 0644)
			}
			cs.observe("history", name)
			cs.observe("ops", len(all))
			cs.observe("clients", G)
			cs.emit = true
			e.count("history_ops", int64(len(all)))
			cs.nontrivial("h", idx, e.shard)
			_ = strings.TrimSpace
		})
	}
}
