//go:build verif

package sets

import "fmt"

type vImpl = IntSet

const vSetKind = "IntSet"

func vNew(els ...int) *vImpl         { return NewIntSet(els...) }
func vInsert(s *vImpl, e int)        { s.Insert(e) }
func vInsert2(s *vImpl, a, b int)    { s.Insert(a, b) }
func vDelete(s *vImpl, e int)        { s.Delete(e) }
func vContains(s *vImpl, e int) bool { return s.Contains(e) }
func vElements(s *vImpl) []string {
	var out []string
	for _, e := range s.Elements() {
		out = append(out, fmt.Sprint(e))
	}
	return out
}
func vSorted(s *vImpl) []string {
	var out []string
	for _, e := range s.Sorted() {
		out = append(out, fmt.Sprint(e))
	}
	return out
}
func vSortedWant(els []int) []string {
	out := make([]string, len(els))
	for i, e := range els {
		out[i] = fmt.Sprint(e)
	}
	return out
}

// vScribble overwrites the slices Sorted and Elements hand out.
func vScribble(s *vImpl) {
	for _, sl := range [][]int{s.Sorted(), s.Elements()} {
		for k := range sl {
			sl[k] = -77
		}
	}
}
