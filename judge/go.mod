module verif/judge

go 1.21

require github.com/anishathalye/porcupine v1.3.0
