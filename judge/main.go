// Offline checker for recorded AddValue/MultipleMatch/NearestMatch histories
// (property C14): linearizability against a per-key boolean model, partitioned
// by key, with porcupine.
//
// usage: judge <history.json>...   prints one JSON line per history:
// {"id":..., "verdict":"ok|illegal|unknown", "ops":N, "partitions":K, "detail":...}
package main

import (
	"encoding/json"
	"fmt"
	"os"
	"sort"
	"time"

	"github.com/anishathalye/porcupine"
)

type op struct {
	Client int    `json:"client"`
	Op     string `json:"op"`
	Key    int    `json:"key"`
	Call   int64  `json:"call"`
	Ret    int64  `json:"ret"`
	Out    bool   `json:"out"`
}

type history struct {
	ID      string `json:"id"`
	Idx     int    `json:"idx"`
	Process int    `json:"process"`
	Clients int    `json:"clients"`
	Keys    int    `json:"keys"`
	Ops     []op   `json:"ops"`
}

type input struct {
	Op  string
	Key int
}

var model = porcupine.Model{
	Partition: func(h []porcupine.Operation) [][]porcupine.Operation {
		m := map[int][]porcupine.Operation{}
		for _, o := range h {
			k := o.Input.(input).Key
			m[k] = append(m[k], o)
		}
		keys := make([]int, 0, len(m))
		for k := range m {
			keys = append(keys, k)
		}
		sort.Ints(keys)
		out := make([][]porcupine.Operation, 0, len(m))
		for _, k := range keys {
			out = append(out, m[k])
		}
		return out
	},
	Init: func() interface{} { return false },
	Step: func(state, in, out interface{}) (bool, interface{}) {
		added := state.(bool)
		i := in.(input)
		o := out.(bool)
		switch i.Op {
		case "add":
			// succeeds iff the key was not registered yet; afterwards it is registered
			return o == !added, true
		default: // mm, nm: the value is reported iff it has been registered
			return o == added, added
		}
	},
	Equal: func(a, b interface{}) bool { return a.(bool) == b.(bool) },
	DescribeOperation: func(in, out interface{}) string {
		i := in.(input)
		return fmt.Sprintf("%s(key%d) -> %v", i.Op, i.Key, out)
	},
}

func main() {
	enc := json.NewEncoder(os.Stdout)
	for _, f := range os.Args[1:] {
		b, err := os.ReadFile(f)
		if err != nil {
			enc.Encode(map[string]interface{}{"file": f, "verdict": "error", "detail": err.Error()})
			continue
		}
		var h history
		if err := json.Unmarshal(b, &h); err != nil {
			enc.Encode(map[string]interface{}{"file": f, "verdict": "error", "detail": err.Error()})
			continue
		}
		var ops []porcupine.Operation
		for _, o := range h.Ops {
			ops = append(ops, porcupine.Operation{ClientId: o.Client, Input: input{o.Op, o.Key}, Call: o.Call, Output: o.Out, Return: o.Ret})
		}
		res, info := porcupine.CheckOperationsVerbose(model, ops, 60*time.Second)
		v := "ok"
		detail := ""
		switch res {
		case porcupine.Illegal:
			v = "illegal"
			// describe the offending partition: the per-key sub-history in call order
			for _, part := range model.Partition(ops) {
				if r, _ := porcupine.CheckOperationsVerbose(model, part, 30*time.Second); r == porcupine.Illegal {
					sort.Slice(part, func(i, j int) bool { return part[i].Call < part[j].Call })
					for i, o := range part {
						if i >= 40 {
							detail += "...\n"
							break
						}
						detail += fmt.Sprintf("client %d [%d,%d] %s\n", o.ClientId, o.Call, o.Return, model.DescribeOperation(o.Input, o.Output))
					}
					break
				}
			}
		case porcupine.Unknown:
			v = "unknown"
		}
		_ = info
		enc.Encode(map[string]interface{}{"file": f, "id": h.ID, "idx": h.Idx, "process": h.Process, "verdict": v, "ops": len(ops), "clients": h.Clients, "keys": h.Keys, "detail": detail})
	}
}
