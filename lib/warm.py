#!/usr/bin/env python3
"""Builds every harness binary once (plain; -race where a check uses it) to warm the build cache."""
import os
import sys
sys.path.insert(0, os.path.dirname(os.path.abspath(__file__)))
import driver
import specs

def main():
    ctx = driver.new_ctx("warm", "quick", 1)
    try:
        seen = set()
        for pid, sp in sorted(specs.SPECS.items()):
            for b in sp.get("builds", [sp]):
                if "module" not in b:
                    continue
                key = (b["module"], b.get("pkgdir", "."), tuple(b["harness"]), b.get("race", False))
                if key in seen:
                    continue
                seen.add(key)
                try:
                    _, t = driver.build_test(ctx["scratch"], b["module"], b.get("pkgdir", "."), b["harness"], race=b.get("race", False), stubs=b.get("stubs", ()), out="w%d" % len(seen))
                    print("built %s/%s race=%s in %.1fs" % (b["module"], b.get("pkgdir", "."), b.get("race", False), t))
                except driver.HarnessError as e:
                    print("warm: build failed:", str(e)[:2000])
                    return 1
        return 0
    finally:
        driver.cleanup(ctx)

if __name__ == "__main__":
    sys.exit(main())
