"""Driver for the runtime monitors: builds harness binaries from /repo's working
tree (go test -c -overlay, build tag `verif`), runs them as sharded child
processes, judges the recorded event logs, applies known findings, writes the
evidence file and sets the exit status.

exit 0  property held on everything explored (KNOWN-FINDING lines possible)
exit 1  at least one violation that no listed finding explains (VIOLATION line)
exit 3  the harness could not be built / run / observed too little (ERROR line)
"""
import base64
import glob
import hashlib
import json
import os
import shutil
import struct
import subprocess
import sys
import tempfile
import time

VERIF = os.path.dirname(os.path.dirname(os.path.abspath(__file__)))
REPO = os.environ.get("VERIF_REPO", "/repo")
NCPU = min(16, os.cpu_count() or 4)

GOENV = {
    "GOFLAGS": "-mod=mod",
    "GOPROXY": "off",
    "GOSUMDB": "off",
    "GOTOOLCHAIN": "local",
}


def goenv(extra=None):
    env = dict(os.environ)
    env.update(GOENV)
    if extra:
        env.update(extra)
    return env


class HarnessError(Exception):
    pass


def log(msg):
    print(msg, flush=True)


def mkscratch():
    base = os.environ.get("VERIF_TMP") or "/var/tmp"
    os.makedirs(base, exist_ok=True)
    return tempfile.mkdtemp(prefix="verif-", dir=base)


# ---------------------------------------------------------------------------
# building


def modfile(scratch, module):
    """Private copy of go.mod/go.sum so that /repo's files are never rewritten."""
    d = os.path.join(scratch, "mod_" + module.replace("/", "_").replace(".", "root"))
    os.makedirs(d, exist_ok=True)
    src = os.path.join(REPO, module)
    shutil.copy(os.path.join(src, "go.mod"), os.path.join(d, "go.mod"))
    if os.path.exists(os.path.join(src, "go.sum")):
        shutil.copy(os.path.join(src, "go.sum"), os.path.join(d, "go.sum"))
    return os.path.join(d, "go.mod")


def make_overlay(scratch, module, pkgdir, harness_dirs, stubs=(), name="overlay"):
    """Overlay that ADDS harness files to a package directory of the tree.

    harness_dirs: directories under /verif/harness whose *.go files become
    zz_verif_<dir>_<file>_test.go in <repo>/<module>/<pkgdir>.
    stubs: repo-relative test files replaced by an empty stub (only used for the
    root package, whose TestMain aborts without licenses.db).
    """
    rep = {}
    target = os.path.normpath(os.path.join(REPO, module, pkgdir))
    # the generic kit, with the package clause of the package under test
    pkgname = None
    for f in sorted(glob.glob(os.path.join(target, "*.go"))):
        if f.endswith("_test.go"):
            continue
        for line in open(f, errors="replace"):
            if line.startswith("package "):
                pkgname = line.split()[1]
                break
        if pkgname:
            break
    if not pkgname:
        raise HarnessError("cannot determine the package name of %s" % target)
    core = open(os.path.join(VERIF, "harness", "core", "kitcore.go")).read().replace("package PKGNAME", "package " + pkgname, 1)
    coref = os.path.join(scratch, "kitcore_%s_%s.go" % (pkgname, hashlib.sha1(target.encode()).hexdigest()[:6]))
    with open(coref, "w") as fh:
        fh.write(core)
    rep[os.path.join(target, "zz_verif_kitcore_test.go")] = coref
    for hd in harness_dirs:
        src = os.path.join(VERIF, "harness", hd)
        files = sorted(glob.glob(os.path.join(src, "*.go")))
        if not files:
            raise HarnessError("no harness sources in %s" % src)
        for f in files:
            stem = os.path.splitext(os.path.basename(f))[0]
            rep[os.path.join(target, "zz_verif_%s_%s_test.go" % (hd.replace("/", "_"), stem))] = f
    for st in stubs:
        p = os.path.join(REPO, st)
        if os.path.exists(p):
            pkgname = None
            for line in open(p, errors="replace"):
                if line.startswith("package "):
                    pkgname = line.split()[1]
                    break
            stubf = os.path.join(scratch, "stub_%s.go" % hashlib.sha1(st.encode()).hexdigest()[:8])
            with open(stubf, "w") as fh:
                fh.write("package %s\n" % pkgname)
            rep[p] = stubf
    path = os.path.join(scratch, name + ".json")
    with open(path, "w") as fh:
        json.dump({"Replace": rep}, fh)
    return path


def build_test(scratch, module, pkgdir, harness_dirs, race=False, stubs=(), out=None, extra_tags=""):
    ov = make_overlay(scratch, module, pkgdir, harness_dirs, stubs, name="ov_" + (out or "t"))
    mf = modfile(scratch, module)
    out = os.path.join(scratch, (out or "harness") + (".race" if race else "") + ".test")
    cmd = ["go", "test", "-c", "-tags", "verif" + ((" " + extra_tags) if extra_tags else ""), "-vet=off",
           "-overlay", ov, "-modfile", mf, "-o", out]
    if race:
        cmd.append("-race")
    cmd.append("./" + pkgdir if pkgdir not in (".", "") else ".")
    t0 = time.time()
    p = subprocess.run(cmd, cwd=os.path.join(REPO, module), env=goenv(), stdout=subprocess.PIPE, stderr=subprocess.STDOUT, text=True)
    if p.returncode != 0 or not os.path.exists(out):
        raise HarnessError("harness build failed (%s):\n%s" % (" ".join(cmd), p.stdout[-4000:]))
    return out, time.time() - t0


def build_prog(scratch, module, pkg, out, race=False):
    mf = modfile(scratch, module)
    outp = os.path.join(scratch, out)
    cmd = ["go", "build", "-modfile", mf, "-o", outp]
    if race:
        cmd.append("-race")
    cmd.append(pkg)
    p = subprocess.run(cmd, cwd=os.path.join(REPO, module), env=goenv(), stdout=subprocess.PIPE, stderr=subprocess.STDOUT, text=True)
    if p.returncode != 0 or not os.path.exists(outp):
        raise HarnessError("build failed (%s):\n%s" % (" ".join(cmd), p.stdout[-4000:]))
    return outp


# ---------------------------------------------------------------------------
# running shards


def read_events(path):
    evs = []
    if not os.path.exists(path):
        return evs
    with open(path, "rb") as fh:
        for line in fh:
            line = line.strip()
            if not line:
                continue
            try:
                evs.append(json.loads(line))
            except Exception:
                evs.append({"ev": "garbled", "raw": line[:200].decode("latin1")})
    return evs


def read_sigs(path):
    s = set()
    if os.path.exists(path):
        data = open(path, "rb").read()
        for i in range(0, len(data) - 7, 8):
            s.add(data[i:i + 8])
    return s


class Shard:
    def __init__(self, idx, n):
        self.idx = idx
        self.n = n
        self.attempt = 0
        self.from_ = 0
        self.proc = None
        self.logs = []
        self.outs = []
        self.done = False
        self.ncrash = 0
        self.skip = set()


def start_shard(ctx, sh, binary, testname, cwd, extra_env, timeout_s, only=None, case_timeout=None):
    sh.attempt += 1
    ctx["_nlog"] = ctx.get("_nlog", 0) + 1
    logp = os.path.join(ctx["scratch"], "%s_s%d_a%d_%d.jsonl" % (ctx["tag"], sh.idx, sh.attempt, ctx["_nlog"]))
    outp = logp + ".out"
    env = goenv({
        "VERIF_PROP": ctx["prop"], "VERIF_SEED": str(ctx["seed"]), "VERIF_TIER": ctx["tier"],
        "VERIF_SHARD": str(sh.idx), "VERIF_NSHARDS": str(sh.n), "VERIF_LOG": logp,
        "VERIF_FROM": str(sh.from_), "VERIF_SCRATCH": ctx["scratch"], "VERIF_HOME": VERIF,
        # measured in this VM: fresh-page faults are expensive, so a few processes with
        # many worker goroutines sharing their classifiers beat many processes
        "GOMAXPROCS": str(ctx.get("gomaxprocs", 2)),
    })
    if only is not None:
        env["VERIF_ONLY"] = str(only)
    if case_timeout is not None:
        env["VERIF_CASE_TIMEOUT"] = str(case_timeout)
    env.update(extra_env or {})
    cmd = ["timeout", "-s", "QUIT", "-k", "20", str(int(timeout_s)), binary, "-test.run", "^%s$" % testname,
           "-test.timeout", "0", "-test.v"]
    fh = open(outp, "wb")
    sh.proc = subprocess.Popen(cmd, cwd=cwd, env=env, stdout=fh, stderr=subprocess.STDOUT)
    sh.fh = fh
    sh.logs.append(logp)
    sh.outs.append(outp)
    return logp


def _inflight(logp):
    out = []
    for f in sorted(glob.glob(logp + ".inflight.*")):
        try:
            rec = json.load(open(f))
            slot = f.rsplit(".", 1)[1]
            inp = "%s.input.%s" % (logp, slot)
            if os.path.exists(inp):
                rec["_input_b64"] = base64.b64encode(open(inp, "rb").read()[:1 << 20]).decode()
            out.append(rec)
        except Exception:
            pass
    return out


def _tail(path, n=6000):
    try:
        data = open(path, "rb").read()
        return data[:2500].decode("utf-8", "replace"), data[-n:].decode("utf-8", "replace")
    except Exception:
        return "", ""


def _tree_cpu(pid):
    """CPU seconds (user+system) consumed so far by pid and its descendants."""
    total, todo, seen = 0.0, [pid], set()
    tick = os.sysconf("SC_CLK_TCK")
    while todo:
        q = todo.pop()
        if q in seen:
            continue
        seen.add(q)
        try:
            st = open("/proc/%d/stat" % q).read()
            f = st[st.rindex(")") + 2:].split()
            total += (int(f[11]) + int(f[12])) / float(tick)
            for t in os.listdir("/proc/%d/task" % q):
                try:
                    todo.extend(int(c) for c in open("/proc/%d/task/%s/children" % (q, t)).read().split())
                except Exception:
                    pass
        except Exception:
            pass
    return total


def run_alone(ctx, binary, testname, cwd, extra_env, idx, case_timeout, idle_after=None):
    """Re-runs one case in a fresh single-worker process. Returns (finished, events, out_tail, rc).
    idle_after (seconds): once the case has run that long, a process tree that consumed
    less than 1 s of CPU during the last 90 s is blocked, not slow - it is stopped with
    SIGQUIT (goroutine dump in the output) instead of waiting for the whole budget;
    ctx["_blocked"] then describes what was seen."""
    sh = Shard(0, 1)
    env = dict(extra_env or {})
    env["VERIF_WORKERS"] = "1"
    start_shard(ctx, sh, binary, testname, cwd, env, case_timeout + 300, only=idx, case_timeout=case_timeout)
    ctx.pop("_blocked", None)
    if idle_after is None:
        rc = sh.proc.wait()
    else:
        t0 = time.time()
        window = []
        while True:
            try:
                rc = sh.proc.wait(timeout=10)
                break
            except subprocess.TimeoutExpired:
                pass
            now = time.time()
            window.append((now, _tree_cpu(sh.proc.pid)))
            window = [w for w in window if now - w[0] <= 100]
            if now - t0 >= idle_after and window[-1][0] - window[0][0] >= 85 and window[-1][1] - window[0][1] < 1.0:
                ctx["_blocked"] = "run alone it was blocked: %.1f s of CPU in the last %.0f s after %.0f s" % (
                    window[-1][1] - window[0][1], window[-1][0] - window[0][0], now - t0)
                subprocess.call(["pkill", "-QUIT", "-P", str(sh.proc.pid)])
                try:
                    rc = sh.proc.wait(timeout=60)
                except subprocess.TimeoutExpired:
                    sh.proc.kill()
                    rc = sh.proc.wait()
                break
    sh.fh.close()
    evs = read_events(sh.logs[-1])
    _, tail = _tail(sh.outs[-1])
    return any(e.get("ev") == "done" for e in evs), evs, tail, rc


def run_sharded(ctx, binary, testname, cwd, nshards, timeout_s, extra_env=None, max_crashes=25, parallel=None):
    """Runs nshards child processes (at most `parallel` at a time). A child that
    dies without its `done` event had one or more cases in flight (one per
    worker): each of them is re-run alone in a fresh process to attribute the
    death; the shard is then resumed without those cases. A watchdog expiry is
    only a violation (kind=hang) if the case also exceeds ten times the budget
    when run alone; a single expiry is inconclusive.
    Returns (events, crashes, sigs)."""
    parallel = parallel or NCPU
    shards = [Shard(i, nshards) for i in range(nshards)]
    pending = list(shards)
    running = []
    crashes = []
    extra_events = []
    hang_confirmed = [0]
    skipped_hang_candidates = []
    base_ct = float((extra_env or {}).get("VERIF_CASE_TIMEOUT", 120))
    while pending or running:
        while pending and len(running) < parallel:
            sh = pending.pop(0)
            env = dict(extra_env or {})
            if sh.skip:
                env["VERIF_SKIP"] = ",".join(str(i) for i in sorted(sh.skip))
            start_shard(ctx, sh, binary, testname, cwd, env, timeout_s)
            running.append(sh)
        time.sleep(0.05)
        for sh in list(running):
            rc = sh.proc.poll()
            if rc is None:
                continue
            sh.fh.close()
            running.remove(sh)
            if getattr(sh, "killed", False):
                continue
            logp = sh.logs[-1]
            evs = read_events(logp)
            if any(e.get("ev") == "done" for e in evs):
                sh.done = True
                continue
            cands = _inflight(logp)
            head, tail = _tail(sh.outs[-1])
            wd = [e for e in evs if e.get("ev") == "watchdog"]
            watchdog = bool(wd) or rc in (124, 137)
            if not cands:
                crashes.append({"shard": sh.idx, "rc": rc, "inflight": None, "out_tail": tail, "out_head": head,
                                "fatal": "child died with no case in flight (rc=%s)" % rc})
                continue
            late = set(wd[0].get("late", [])) if wd else set()
            attributed = False
            for infl in cands:
                idx = infl["idx"]
                if watchdog:
                    if late and idx not in late:
                        continue
                    if hang_confirmed[0] >= 1:
                        # one double-confirmed hang settles the verdict; re-running every other
                        # late case with the long budget would take hours on a tree that hangs
                        skipped_hang_candidates.append(idx)
                        continue
                    finished, aevs, atail, arc = run_alone(ctx, binary, testname, cwd, extra_env, idx, base_ct * 10, idle_after=base_ct)
                    if finished:
                        extra_events.append({"ev": "case", "idx": idx, "verdict": "inconclusive", "gen": infl.get("gen"),
                                             "detail": "watchdog (%.0fs) fired once; the case finished when re-run alone" % base_ct})
                        extra_events.extend(e for e in aevs if e.get("ev") == "case")
                    else:
                        attributed = True
                        hang_confirmed[0] += 1
                        crashes.append({"shard": sh.idx, "rc": arc, "inflight": infl, "kind": "hang", "watchdog": True,
                                        "out_tail": atail, "input_b64": infl.get("_input_b64"),
                                        "fatal": ("case exceeded %.0fs in the shard; %s" % (base_ct, ctx["_blocked"])) if ctx.get("_blocked")
                                        else "case exceeded %.0fs in the shard and %.0fs when run alone" % (base_ct, base_ct * 10)})
                else:
                    finished, aevs, atail, arc = run_alone(ctx, binary, testname, cwd, extra_env, idx, base_ct)
                    if finished:
                        extra_events.extend(e for e in aevs if e.get("ev") == "case")
                    else:
                        attributed = True
                        crashes.append({"shard": sh.idx, "rc": arc, "inflight": infl, "kind": "process-death",
                                        "out_tail": atail, "input_b64": infl.get("_input_b64")})
            if not attributed and not watchdog:
                crashes.append({"shard": sh.idx, "rc": rc, "inflight": cands[0], "kind": "process-death-unattributed",
                                "out_tail": tail, "out_head": head,
                                "fatal": "child died with cases %s in flight; none of them dies when run alone" % [c["idx"] for c in cands]})
            sh.ncrash += 1
            if hang_confirmed[0] >= 1:
                # do not resume shards of a tree that hangs: the remaining cases stay unexplored
                # (the violation is already established)
                for other in list(running):
                    other.killed = True
                    try:
                        other.proc.kill()
                    except Exception:
                        pass
                pending[:] = []
                continue
            if sh.ncrash <= max_crashes:
                sh.from_ = max(sh.from_, min(c["idx"] for c in cands))
                sh.skip |= set(c["idx"] for c in cands)
                pending.append(sh)
            else:
                crashes.append({"shard": sh.idx, "rc": rc, "inflight": cands[0], "kind": "process-death",
                                "fatal": "too many crashes in one shard; remaining cases not run", "out_tail": tail})
    events = list(extra_events)
    sigs = set()
    for sh in shards:
        for lp in sh.logs:
            events.extend(read_events(lp))
            sigs |= read_sigs(lp + ".sigs")
    return events, crashes, sigs


# ---------------------------------------------------------------------------
# known findings


def load_known():
    p = os.path.join(VERIF, "known_findings.json")
    if not os.path.exists(p):
        return {"findings": [], "fixed": []}
    return json.load(open(p))


def open_findings(prop):
    return {f["id"]: f for f in load_known().get("findings", []) if f.get("property") == prop and f.get("status", "open") == "open"}


# ---------------------------------------------------------------------------
# judging / evidence


def write_replay(prop, rec):
    d = os.path.join(VERIF, "replays", prop)
    os.makedirs(d, exist_ok=True)
    blob = json.dumps(rec, sort_keys=True, default=str)
    name = hashlib.sha1(blob.encode()).hexdigest()[:16] + ".json"
    path = os.path.join(d, name)
    with open(path, "w") as fh:
        fh.write(blob)
    return path


def validate_evidence(ev):
    try:
        import jsonschema  # optional
        schema = json.load(open("/root/.vp/EVIDENCE.schema.json"))
        jsonschema.validate(ev, schema)
        return None
    except ImportError:
        pass
    except Exception as e:  # schema violation
        return str(e)[:500]
    # minimal built-in validation when jsonschema is unavailable
    for k in ("property_id", "tier", "seed", "level", "coverage", "wall_s"):
        if k not in ev:
            return "missing key " + k
    c = ev["coverage"]
    if ev["level"] in ("exploration", "fault_enumeration"):
        if not (isinstance(c.get("evaluations"), int) and c["evaluations"] >= 1):
            return "evaluations"
        if not (isinstance(c.get("distinct_nontrivial"), int) and c["distinct_nontrivial"] >= 2):
            return "distinct_nontrivial"
        if not isinstance(c.get("rule"), str):
            return "rule"
        if not (isinstance(c.get("samples"), list) and c["samples"]):
            return "samples"
    return None


def write_evidence(prop, ev):
    d = os.path.join(VERIF, "evidence")
    if os.path.realpath(REPO) != "/repo":
        # development runs against a scratch worktree (sensitivity checks) must not
        # overwrite the evidence of the real tree
        d = os.path.join(os.environ.get("VERIF_TMP") or "/var/tmp", "verif-evidence-other-tree")
    os.makedirs(d, exist_ok=True)
    path = os.path.join(d, prop + ".json")
    err = validate_evidence(ev)
    tmp = path + ".tmp"
    with open(tmp, "w") as fh:
        json.dump(ev, fh, indent=1, sort_keys=True, default=str)
    os.replace(tmp, path)
    return err


def summarize(ctx, events, crashes, sigs, spec, extra_cov=None, extra_violations=None, extra_samples=None):
    """Turns events into the verdict. Returns exit code."""
    prop = ctx["prop"]
    known = open_findings(prop)
    dones = [e for e in events if e.get("ev") == "done"]
    cases = [e for e in events if e.get("ev") == "case"]
    samples = [e for e in events if e.get("ev") == "sample"]
    evaluations = sum(d.get("evaluations", 0) for d in dones)
    nontrivial_total = sum(d.get("nontrivial", 0) for d in dones)
    counters = {}
    for d in dones:
        for k, v in (d.get("counters") or {}).items():
            counters[k] = counters.get(k, 0) + v
    violations = []
    kf_seen = {}
    inconclusive = []
    for c in cases:
        if c.get("verdict") == "violation":
            kf = c.get("kf")
            if kf and kf in known:
                kf_seen.setdefault(kf, []).append(c)
            else:
                violations.append(c)
        elif c.get("verdict") == "inconclusive":
            inconclusive.append(c)
    for cr in crashes:
        infl = cr.get("inflight") or {}
        violations.append({"ev": "case", "verdict": "violation", "kind": cr.get("kind") or ("hang" if cr.get("watchdog") else "process-death"),
                           "idx": infl.get("idx"), "gen": infl.get("gen"), "params": infl.get("params"),
                           "detail": (cr.get("fatal", "") + "\n" + cr.get("out_tail", ""))[-3000:], "rc": cr.get("rc"),
                           "input_b64": cr.get("input_b64")})
    for v in (extra_violations or []):
        kf = v.get("kf")
        if kf and kf in known:
            kf_seen.setdefault(kf, []).append(v)
        else:
            violations.append(v)

    harness_panics = [v for v in violations if v.get("kind") == "harness-panic"]
    violations = [v for v in violations if v.get("kind") != "harness-panic"]
    out_lines = []
    for hp in harness_panics[:3]:
        out_lines.append("ERROR %s: the harness itself panicked (no verdict for this case): gen=%s idx=%s %s" % (
            prop, hp.get("gen"), hp.get("idx"), str(hp.get("detail", ""))[:400].replace("\n", " | ")))
    for kf, lst in sorted(kf_seen.items()):
        out_lines.append("KNOWN-FINDING: property=%s %s %s (%d case(s) in this run, e.g. %s)" % (
            prop, kf, known[kf].get("what", ""), len(lst), (lst[0].get("gen") or "") + " " + str(lst[0].get("detail", ""))[:160].replace("\n", " ")))
    # distinct violations by (gen, kind) get one replay each (max 10)
    seen = set()
    nrep = 0
    for v in violations:
        key = (v.get("gen"), v.get("kind"))
        if key in seen and nrep >= 3:
            continue
        if nrep >= 10:
            break
        seen.add(key)
        nrep += 1
        rec = dict(v)
        rec.update({"property": prop, "seed": ctx["seed"], "tier": ctx["tier"], "harness": spec.get("test"), "spec": spec.get("name", prop)})
        path = write_replay(prop, rec)
        out_lines.append("VIOLATION property=%s replay=%s" % (prop, path))
        out_lines.append("  kind=%s gen=%s idx=%s: %s" % (v.get("kind"), v.get("gen"), v.get("idx"), str(v.get("detail", ""))[:600].replace("\n", "\n    ")))

    distinct = len(sigs)
    cov = {
        "evaluations": int(evaluations),
        "distinct_nontrivial": int(distinct),
        "nontrivial_evaluations": int(nontrivial_total),
        "rule": spec.get("rule", ""),
        "samples": [],
        "inconclusive": len(inconclusive),
        "known_finding_cases": {k: len(v) for k, v in kf_seen.items()},
        "counters": counters,
        "shards": len(dones),
    }
    for s in (extra_samples or []):
        cov["samples"].append(s)
    for s in samples[:4]:
        cov["samples"].append({k: s[k] for k in s if k in ("gen", "params", "idx", "input_head", "input_len", "obs")})
    if inconclusive:
        cov["inconclusive_examples"] = [{"gen": c.get("gen"), "idx": c.get("idx"), "detail": str(c.get("detail"))[:200]} for c in inconclusive[:5]]
    if spec.get("exhaustive"):
        cov["exhaustive"] = True
    if extra_cov:
        cov.update(extra_cov)
    ev = {
        "property_id": prop, "tier": ctx["tier"], "seed": int(ctx["seed"]), "level": spec.get("level", "exploration"),
        "coverage": cov, "assumptions": spec.get("assumptions", []), "wall_s": round(time.time() - ctx["t0"], 2),
        "violations": len(violations),
    }
    rc = 0
    err = None
    floor_e = spec.get("floor_evals", {}).get(ctx["tier"], 1)
    floor_n = spec.get("floor_nontrivial", {}).get(ctx["tier"], 2)
    if ctx.get("only") is None:
        if not violations and (evaluations < floor_e or distinct < floor_n):
            err = "insufficient observation: evaluations=%d (floor %d) distinct_nontrivial=%d (floor %d)" % (evaluations, floor_e, distinct, floor_n)
        if not violations and len(dones) < ctx.get("expected_dones", 1):
            err = "only %d of %d shards completed" % (len(dones), ctx.get("expected_dones", 1))
    if not cov["samples"]:
        cov["samples"] = [{"note": "no sample recorded"}]
    verr = None
    if ctx.get("only") is None:
        verr = write_evidence(prop, ev)
    else:
        out_lines.append("REPLAY %s case %s: %s" % (prop, ctx.get("only"), "VIOLATED again" if violations else ("attributed to a known finding" if kf_seen else "held (no violation on the current tree)")))
    for l in out_lines:
        log(l)
    if violations:
        rc = 1
    elif harness_panics:
        rc = 3
    elif err:
        log("ERROR %s: %s" % (prop, err))
        rc = 3
    elif verr:
        log("ERROR %s: evidence does not validate: %s" % (prop, verr))
        rc = 3
    log("%s %s seed=%s: evaluations=%d distinct_nontrivial=%d violations=%d known_finding_cases=%d inconclusive=%d wall=%.1fs -> exit %d" % (
        prop, ctx["tier"], ctx["seed"], evaluations, distinct, len(violations), sum(len(v) for v in kf_seen.values()), len(inconclusive), time.time() - ctx["t0"], rc))
    return rc


def new_ctx(prop, tier, seed):
    scratch = mkscratch()
    return {"prop": prop, "tier": tier, "seed": seed, "scratch": scratch, "t0": time.time(), "tag": prop, "only": None}


def cleanup(ctx):
    if os.environ.get("VERIF_KEEP"):
        log("scratch kept: " + ctx["scratch"])
        return
    shutil.rmtree(ctx["scratch"], ignore_errors=True)
