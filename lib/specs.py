"""Per-property check specifications."""
import os

import driver

V2_ASSUME = [
    "harness binaries are built from /repo's working tree with `go test -c -tags verif -overlay`; the overlay only ADDS zz_verif_*_test.go files to the package",
    "cwd of v2 harness processes is <repo>/v2 (corpus read from ./assets; the run aborts if fewer than 400 documents are found)",
    "verdicts are 'held on the executions observed', not proofs",
]


def run_generic(ctx, spec):
    tier = ctx["tier"]
    binary, bt = driver.build_test(ctx["scratch"], spec["module"], spec.get("pkgdir", "."), spec["harness"],
                                   race=spec.get("race", False), stubs=spec.get("stubs", ()), out=spec.get("out", "h"))
    cwd = os.path.join(driver.REPO, spec.get("cwd", spec["module"]))
    nshards = spec.get("shards", {}).get(tier, driver.NCPU)
    extra_env = dict(spec.get("env", {}).get(tier, {}))
    extra_env.setdefault("VERIF_WORKERS", str(spec.get("workers", {}).get(tier, 1)))
    ctx["gomaxprocs"] = spec.get("gomaxprocs", {}).get(tier, max(2, int(extra_env["VERIF_WORKERS"])))
    if "case_timeout" in spec:
        extra_env["VERIF_CASE_TIMEOUT"] = str(spec["case_timeout"].get(tier, 120))
    timeout_s = spec.get("timeout", {}).get(tier, 3600)
    if ctx.get("only") is not None:
        nshards = 1
        extra_env["VERIF_ONLY"] = str(ctx["only"])
        extra_env["VERIF_WORKERS"] = "1"
    ctx["expected_dones"] = nshards
    events, crashes, sigs = driver.run_sharded(ctx, binary, spec["test"], cwd, nshards, timeout_s, extra_env=extra_env,
                                               parallel=spec.get("parallel", driver.NCPU))
    post = spec.get("post")
    extra = {}
    if post:
        extra = post(ctx, spec, events, crashes) or {}
    cov = {"harness_build_s": round(bt, 1)}
    cov.update(extra.get("cov", {}))
    return driver.summarize(ctx, events, crashes, sigs, spec, extra_cov=cov,
                            extra_violations=extra.get("violations"), extra_samples=extra.get("samples"))


def v2spec(test, **kw):
    d = dict(module="v2", pkgdir=".", harness=["v2"], test=test, cwd="v2", run=run_generic, out="v2",
             shards={"quick": 1, "thorough": 2}, workers={"quick": 16, "thorough": 8},
             assumptions=list(V2_ASSUME), level="exploration")
    d.update(kw)
    return d


SPECS = {}

SPECS["C01"] = v2spec(
    "TestVerifC01",
    title="planted corpus documents are found whole at confidence 1.0",
    rule=("case = one generated input: filler + verbatim copies of corpus documents (embedded corpus: every document, 1-4 copies, "
          "thresholds 0.7..1.0; synthetic corpora with near-duplicates/containment/duplicates; embedded+synthetic mixed). "
          "Expected token span and lines are computed from the construction (filler word/line counts) and from the document on its own, "
          "never from the Match call judged. Non-trivial = at least one planted copy of >= q(threshold) words; distinct = distinct (documents, threshold, input bytes)."),
    floor_evals={"quick": 700, "thorough": 30000},
    floor_nontrivial={"quick": 600, "thorough": 25000},
    timeout={"quick": 1500, "thorough": 3 * 3600},
)
