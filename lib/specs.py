"""Per-property check specifications."""
import glob
import os
import re

import driver

V2_ASSUME = [
    "harness binaries are built from /repo's working tree with `go test -c -tags verif -overlay`; the overlay only ADDS zz_verif_*_test.go files to the package",
    "cwd of v2 harness processes is <repo>/v2 (corpus read from ./assets; the run aborts if fewer than 400 documents are found)",
    "verdicts are 'held on the executions observed', not proofs",
]


def run_generic(ctx, spec):
    tier = ctx["tier"]
    binary, bt = driver.build_test(ctx["scratch"], spec["module"], spec.get("pkgdir", "."), spec["harness"],
                                   race=spec.get("race", False), stubs=spec.get("stubs", ()), out=spec.get("out", "h"))
    cwd = os.path.join(driver.REPO, spec.get("cwd", spec["module"]))
    nshards = spec.get("shards", {}).get(tier, driver.NCPU)
    extra_env = dict(spec.get("env", {}).get(tier, {}))
    extra_env.setdefault("VERIF_WORKERS", str(spec.get("workers", {}).get(tier, 1)))
    ctx["gomaxprocs"] = spec.get("gomaxprocs", {}).get(tier, max(2, int(extra_env["VERIF_WORKERS"])))
    if "case_timeout" in spec:
        extra_env["VERIF_CASE_TIMEOUT"] = str(spec["case_timeout"].get(tier, 120))
    timeout_s = spec.get("timeout", {}).get(tier, 3600)
    if ctx.get("only") is not None:
        nshards = 1
        extra_env["VERIF_ONLY"] = str(ctx["only"])
        extra_env["VERIF_WORKERS"] = "1"
    ctx["expected_dones"] = nshards
    events, crashes, sigs = driver.run_sharded(ctx, binary, spec["test"], cwd, nshards, timeout_s, extra_env=extra_env,
                                               parallel=spec.get("parallel", driver.NCPU))
    post = spec.get("post")
    extra = {}
    if post:
        extra = post(ctx, spec, events, crashes) or {}
    cov = {"harness_build_s": round(bt, 1)}
    cov.update(extra.get("cov", {}))
    return driver.summarize(ctx, events, crashes, sigs, spec, extra_cov=cov,
                            extra_violations=extra.get("violations"), extra_samples=extra.get("samples"))


def v2spec(test, **kw):
    d = dict(module="v2", pkgdir=".", harness=["v2"], test=test, cwd="v2", run=run_generic, out="v2",
             shards={"quick": 1, "thorough": 2}, workers={"quick": 16, "thorough": 8},
             assumptions=list(V2_ASSUME), level="exploration")
    d.update(kw)
    return d


SPECS = {}
NOT_CLAIMED = {}

SPECS["C01"] = v2spec(
    "TestVerifC01",
    title="planted corpus documents are found whole at confidence 1.0",
    rule=("case = one generated input: filler + verbatim copies of corpus documents (embedded corpus: every document, 1-4 copies, "
          "thresholds 0.7..1.0; synthetic corpora with near-duplicates/containment/duplicates; embedded+synthetic mixed). "
          "Expected token span and lines are computed from the construction (filler word/line counts) and from the document on its own, "
          "never from the Match call judged. Non-trivial = at least one planted copy of >= q(threshold) words; distinct = distinct (documents, threshold, input bytes)."),
    floor_evals={"quick": 700, "thorough": 30000},
    floor_nontrivial={"quick": 600, "thorough": 25000},
    timeout={"quick": 1500, "thorough": 3 * 3600},
)

SPECS["C02"] = v2spec(
    "TestVerifC02",
    title="confidence never overstates the similarity of the reported span",
    rule=("case = one generated input (edited / truncated / concatenated / adversarial-for-the-diff corpus texts, scenario files, synthetic corpora "
          "with hyphen-split layouts); every non-Copyright match returned is judged: banded word-level Levenshtein between the span's words "
          "(white-box token view of the input, unknown words pairwise distinct) and the named document's words must be <= (1-Confidence)*|K|, and "
          "StartLine/EndLine must be the lines of the span's first/last word (tokenizer view; for synthetic layouts also the physical line known by construction). "
          "Non-trivial = at least one license match was judged; distinct = distinct input bytes x threshold."),
    floor_evals={"quick": 800, "thorough": 15000},
    floor_nontrivial={"quick": 500, "thorough": 10000},
    timeout={"quick": 1500, "thorough": 3 * 3600},
)

SPECS["C03"] = v2spec(
    "TestVerifC03",
    title="nothing below threshold; results well formed and ordered",
    rule=("case = one Match call at a threshold in {0.01,0.1,0.3,0.5,0.65,0.8,0.9,0.99,1.0} on base texts (planted/edited/truncated/concatenated/scenario, with inserted notice lines), "
          "hostile byte strings and synthetic corpora; every returned Results is checked for: threshold <= Confidence <= 1, triple was added to the corpus, "
          "1 <= StartLine <= EndLine <= TotalInputLines <= physical lines, 0 <= StartTok <= EndTok < #words, non-increasing confidence, Copyright shape. "
          "Non-trivial = the result contained at least one match; distinct = distinct input x threshold."),
    floor_evals={"quick": 700, "thorough": 15000},
    floor_nontrivial={"quick": 400, "thorough": 8000},
    timeout={"quick": 1500, "thorough": 3 * 3600},
)

SPECS["C10"] = v2spec(
    "TestVerifC10",
    title="the v2 API is total on arbitrary bytes",
    rule=("case = one hostile byte string (30 structure-aware generator kinds: empty, whitespace, NULs, every single byte value, invalid/overlong/truncated UTF-8, "
          "surrogates, BOM, long lines, many lines, hyphen/newline storms, entities, header/notice look-alikes, byte-flipped/spliced/repeated/shuffled licenses, buffer-edge runes ...) "
          "x threshold in {0,1e-9,0.01,0.3,0.5,2/3,0.75,0.8,0.99,0.999999,1-1e-12,nextafter(1,0),1.0} x corpus in {empty, empty docs, one-word docs, small synthetic, repetitive, embedded}; "
          "Match, MatchFrom (fragmenting readers), Normalize and AddContent (+ matching against the hostile document) are called under recover() in a child "
          "process with a per-case watchdog. Refuted by panic / process death / double-confirmed hang. Inputs > 2.5KB are only used at thresholds >= 0.65 (cost model). "
          "Non-trivial = all calls returned; distinct = distinct input x threshold x corpus."),
    floor_evals={"quick": 5000, "thorough": 250000},
    floor_nontrivial={"quick": 2000, "thorough": 100000},
    timeout={"quick": 1800, "thorough": 5 * 3600},
    case_timeout={"quick": 120, "thorough": 300},
    shards={"quick": 2, "thorough": 4}, workers={"quick": 8, "thorough": 4},
)


def post_c04(ctx, spec, events, crashes):
    """Cross-process oracle: one distinct result per query over all configurations/processes."""
    cfg = {}
    for e in events:
        if e.get("ev") == "config":
            cfg[e["shard"]] = e["config"]
    by_q = {}
    for e in events:
        if e.get("ev") == "obs":
            by_q.setdefault(e["idx"], []).append((e.get("shard"), (e.get("obs") or {}).get("res"), (e.get("obs") or {}).get("q"), e.get("gen")))
    viol = []
    compared = 0
    multi = 0
    for idx, lst in sorted(by_q.items()):
        vals = {}
        for sh, res, q, gen in lst:
            vals.setdefault(res, []).append(sh)
        if len(lst) >= 2:
            compared += 1
        if len(vals) > 1:
            multi += 1
            items = sorted(vals.items(), key=lambda kv: -len(kv[1]))
            det = "query %r: %d distinct results over %d processes\n" % (lst[0][2], len(vals), len(lst))
            for res, shs in items[:4]:
                det += "  configs %s:\n    %s\n" % ([cfg.get(x, x) for x in shs], str(res)[:1500])
            viol.append({"ev": "case", "verdict": "violation", "kind": "cross-process-differs", "gen": lst[0][3], "idx": idx, "detail": det,
                         "params": {"name": lst[0][2]}})
    samples = []
    for idx, lst in sorted(by_q.items())[:2]:
        samples.append({"query": lst[0][2], "result_in_returned_order": str(lst[0][1])[:600], "processes_agreeing": len(lst)})
    need = 1 if ctx.get("only") is not None else min(4, len(cfg))
    if ctx.get("only") is None and len(cfg) < 4:
        viol.append({"ev": "case", "verdict": "violation", "kind": "harness", "gen": "config", "detail": "fewer than 4 configurations reported: %s" % cfg})
    return {"violations": viol, "samples": samples,
            "cov": {"configurations": sorted(cfg.values()), "queries_compared_across_processes": compared, "processes": len(cfg)}}


SPECS["C04"] = v2spec(
    "TestVerifC04",
    title="Match is deterministic and side-effect free",
    rule=("9 child processes (different map-iteration seeds; the ninth uses assets.DefaultClassifier() obtained after another instance was created and extended), each one configuration {corpus order: directory walk/sorted/reversed/shuffled} x {plain, +200 unrelated documents} x "
          "{trace off, trace all phases into a discarding Tracer, trace to stdout}, answer the same seeded query list (every document planted and edited, concatenations, scenario files, "
          "tie-prone inputs: token-identical documents under two names, several Copyright lines, the same document twice). Each query is issued 3x per process with Match/MatchFrom/Normalize "
          "calls on other inputs in between; results are compared in returned order with confidence bits, in-process and (offline) across all processes; argument slices are hashed before/after each call. "
          "Non-trivial = query with at least one match; distinct = distinct query."),
    floor_evals={"quick": 2000, "thorough": 6000},
    floor_nontrivial={"quick": 300, "thorough": 800},
    shards={"quick": 9, "thorough": 9}, workers={"quick": 1, "thorough": 1},
    timeout={"quick": 1800, "thorough": 3 * 3600},
    post=post_c04,
)

SPECS["C05"] = v2spec(
    "TestVerifC05",
    title="presentation changes do not change what is detected",
    rule=("case = (base text B, transformation T): B is a planted / edited / truncated / concatenated corpus document or a scenario file; T is one of re-case, horizontal whitespace + CR/CRLF, "
          "blank-line insertion, comment/quote decoration (18 prefixes), typographic dashes/quotes, or a random composition of 2-3 of them. Lines ending in a hyphen and the line after them are left "
          "untouched (the statement's exemption). Oracle: license matches of B and T(B) must agree in names, variants, confidence bits, token spans, and in line numbers after mapping inserted lines away. "
          "Non-trivial = B has at least one license match; distinct = distinct transformed input."),
    floor_evals={"quick": 1000, "thorough": 15000},
    floor_nontrivial={"quick": 600, "thorough": 9000},
    timeout={"quick": 1500, "thorough": 3 * 3600},
)

SPECS["C06"] = v2spec(
    "TestVerifC06",
    title="notices, list markers, hyphenation and spelling variants are ignored",
    rule=("case = (base text B with >= 1 license match, transformation T): T inserts copyright-notice / ISO-date lines between lines (9 templates), prefixes lines with list markers "
          "(12 strict forms; '<letter>)' forms separately), splits words over two lines with a trailing hyphen, swaps words for their listed interchangeable spelling, or switches http/https. "
          "Oracle: license matches of B and T(B) agree (names, variants, confidence bits, token spans, lines mapped through inserted lines) and every inserted notice is reported as a Copyright match on its line. "
          "Failures are attributed to an open finding only when its token-level signature holds. Non-trivial = the transformation changed the text of a base with matches; distinct = distinct transformed input."),
    floor_evals={"quick": 1200, "thorough": 20000},
    floor_nontrivial={"quick": 600, "thorough": 9000},
    timeout={"quick": 1500, "thorough": 3 * 3600},
)

SPECS["C07"] = v2spec(
    "TestVerifC07",
    title="detection does not depend on position or surrounding unrelated text",
    rule=("case = one text X (exact / 5-15-20% edited / head- or tail-truncated corpus document, concatenation, scenario file) matched in six placements: alone, suffix only, prefix only, both, "
          "far (prefix of ~8000 filler tokens) and far' (far + 3 lines, other suffix). Oracle: all prefixed placements agree pairwise after shifting token indices/lines by the prefix size (strict); "
          "alone == suffix-only (strict); alone == prefixed (strict since the repair of the former finding KF-C07-1, commit 5b909eb). "
          "Non-trivial = X has at least one license match; distinct = distinct X."),
    floor_evals={"quick": 700, "thorough": 8000},
    floor_nontrivial={"quick": 400, "thorough": 4000},
    timeout={"quick": 1500, "thorough": 3 * 3600},
)

SPECS["C08"] = v2spec(
    "TestVerifC08",
    title="streaming input equals in-memory input; reader faults surface as errors",
    level="fault_enumeration",
    exhaustive=True,
    rule=("For each selected input (license texts <= 6 KiB spiced with multi-byte runes, invalid/truncated UTF-8, entities and hyphen+newline; two fixed edge texts): "
          "(1) 9 fragmenting readers (1 byte per Read, chunks 1..7, 1..2000, fixed 1020/1024/1028, data together with EOF, interleaved zero-length reads, half reads): MatchFrom == Match; "
          "(2) EVERY pad width 0..2*1024+8 of leading spaces: Match(pad+bytes) == Match(bytes); (3) EVERY failure offset 0..len(input), error delivered alone and together with the last bytes: "
          "MatchFrom returns exactly the injected error, no matches, TotalInputLines 0, no panic. Larger inputs (<= 60 KB) and the scenario files get the readers and 200 sampled failure offsets. "
          "exhaustive=true refers to the pad-width and failure-offset sub-spaces of the selected inputs. Non-trivial = input with >= 1 match (readers/pads) or any failure block; distinct = distinct (input, block)."),
    floor_evals={"quick": 500, "thorough": 3000},
    floor_nontrivial={"quick": 300, "thorough": 2500},
    timeout={"quick": 1500, "thorough": 3 * 3600},
)


# ---------------------------------------------------------------------------
# race detector support


def parse_race_logs(pattern, module_marker, harness_marker="zz_verif_"):
    """Parses GORACE log_path files. Returns (n_reports, distinct list).
    A report is attributed to the code under test when one of its stacks has a frame
    whose function belongs to module_marker and whose file is not a harness file."""
    reports = []
    for f in sorted(glob.glob(pattern)):
        txt = open(f, errors="replace").read()
        for blk in txt.split("==================")[1:]:
            if "WARNING: DATA RACE" not in blk:
                continue
            reports.append(blk)
    distinct = {}
    for blk in reports:
        stacks = re.split(r"\n\n", blk.strip())
        frames_all = []
        repo_related = False
        outer = []
        for st in stacks[:2]:  # the two conflicting accesses
            lines = st.split("\n")
            fr = []
            i = 1
            while i + 1 < len(lines):
                fn = lines[i].strip()
                loc = lines[i + 1].strip()
                fr.append((fn, loc))
                i += 2
            frames_all.append(fr)
            # outermost frame inside the module under test that is not harness code
            o = None
            for fn, loc in fr:
                if module_marker in fn and harness_marker not in loc:
                    repo_related = True
                    o = fn
            outer.append(o or (fr[-1][0] if fr else "?"))
        inner = tuple((fr[0][0] + " " + re.sub(r" \+0x[0-9a-f]+$", "", fr[0][1])) if fr else "?" for fr in frames_all)
        # de-duplicate by the unordered pair of outermost entry points in the module and
        # by the innermost function pair (line numbers stripped)
        key = (tuple(sorted(str(x) for x in outer)), tuple(sorted(x.split(" ")[0] for x in inner)))
        d = distinct.setdefault(key, {"count": 0, "repo_related": repo_related, "outer": list(outer), "inner": list(inner), "example": blk.strip()[:3500]})
        d["count"] += 1
        d["repo_related"] = d["repo_related"] or repo_related
    return len(reports), list(distinct.values())


def run_c09(ctx, spec):
    tier = ctx["tier"]
    scratch = ctx["scratch"]
    race_bin, bt1 = driver.build_test(scratch, "v2", ".", ["v2"], race=True, out="v2")
    plain_bin, bt2 = driver.build_test(scratch, "v2", ".", ["v2"], race=False, out="v2")
    cwd = os.path.join(driver.REPO, "v2")
    repeats = {"quick": 3, "thorough": 10}[tier]
    only = ctx.get("only")
    ctx["gomaxprocs"] = driver.NCPU
    race_log = os.path.join(scratch, "racelog")
    env = {"VERIF_C09_MODE": "race", "GORACE": "halt_on_error=0 log_path=%s" % race_log, "VERIF_WORKERS": "1", "VERIF_CASE_TIMEOUT": "900"}
    if only is not None:
        env["VERIF_ONLY"] = str(only)
        repeats = 1
    ctx["tag"] = "C09race"
    ev1, cr1, sg1 = driver.run_sharded(ctx, race_bin, "TestVerifC09", cwd, repeats, 3600, extra_env=env, parallel=1)
    env2 = {"VERIF_C09_MODE": "plain", "VERIF_WORKERS": "1", "VERIF_CASE_TIMEOUT": "900"}
    if only is not None:
        env2["VERIF_ONLY"] = str(only)
    ctx["tag"] = "C09plain"
    ev2, cr2, sg2 = driver.run_sharded(ctx, plain_bin, "TestVerifC09", cwd, 1, 3600, extra_env=env2, parallel=1)
    # the CLI backend's fan-out (results and errors collected from worker goroutines), -race
    be_bin, bt3 = driver.build_test(scratch, "v2", "tools/identify_license/backend", ["backend"], race=True, out="backend")
    env3 = {"GORACE": "halt_on_error=0 log_path=%s" % race_log, "VERIF_WORKERS": "1", "VERIF_CASE_TIMEOUT": "900"}
    if only is not None:
        env3["VERIF_ONLY"] = str(only)
    ctx["tag"] = "C09backend"
    ev3, cr3, sg3 = driver.run_sharded(ctx, be_bin, "TestVerifC09Backend", cwd, 1 if only is not None else 2, 3600, extra_env=env3, parallel=1)
    ev2, cr2, sg2 = ev2 + ev3, cr2 + cr3, sg2 | set(b"be" + x for x in sg3)
    nrep, distinct = parse_race_logs(race_log + ".*", "licenseclassifier/v2")
    viol = []
    for d in distinct:
        if d["repo_related"]:
            viol.append({"ev": "case", "verdict": "violation", "kind": "data-race", "gen": "race-detector", "idx": None,
                         "detail": "%d report(s); outermost frames in the module: %s\n%s" % (d["count"], d["outer"], d["example"])})
        else:
            viol.append({"ev": "case", "verdict": "violation", "kind": "data-race-in-harness", "gen": "race-detector", "idx": None,
                         "detail": "race report without a frame of the code under test (harness defect?)\n" + d["example"]})
    obs = [e for e in ev1 + ev2 if e.get("ev") == "obs"]
    maxc = max([(o.get("obs") or {}).get("max_concurrent_calls", 0) for o in obs] or [0])
    samples = [{"storm": o.get("gen"), "process": o.get("shard"), "observed": o.get("obs")} for o in obs[:3]]
    cov = {"race_build_s": round(bt1, 1), "race_reports": nrep, "distinct_race_reports": len(distinct), "race_processes": repeats,
           "storms": len(obs), "max_concurrent_calls_observed": maxc,
           "concurrent_calls_under_race_detector": sum((o.get("obs") or {}).get("calls", 0) for o in obs if o in [e for e in ev1 if e.get("ev") == "obs"])}
    ctx["expected_dones"] = repeats + 1 + (1 if only is not None else 2)
    ctx["tag"] = "C09"
    return driver.summarize(ctx, ev1 + ev2, cr1 + cr2, sg1 | sg2, spec, extra_cov=cov, extra_violations=viol, extra_samples=samples)


SPECS["C09"] = dict(
    run=run_c09, test="TestVerifC09", engine="go-race-detector", level="exploration",
    module="v2", pkgdir=".", harness=["v2"], builds=[dict(module="v2", pkgdir=".", harness=["v2"], race=True),
                                                     dict(module="v2", pkgdir="tools/identify_license/backend", harness=["backend"], race=True)],
    title="one classifier can be matched against from many goroutines at once",
    technique="Go race detector over repeated concurrent storms + differential against sequential results + corpus canary",
    rule=("storm = G goroutines (2/8/16 under -race, 64/256 in a plain build) released by a barrier, each issuing 3 (2) Match/MatchFrom calls over a small shared input set aimed at ONE corpus document "
          "(three variants of it with two far-apart edits, which drives go-diff into its half-match path on the shared corpus runes; an exact copy; a large license; a scenario file). "
          "The -race binary is run as 3 (quick) / 10 (thorough) separate processes with GORACE=halt_on_error=0 log_path=...; every 'WARNING: DATA RACE' block is parsed, de-duplicated by the pair of outermost module frames "
          "and innermost frames, and reported. Every concurrent result is compared with the result of the same call made alone; a SHA-256 canary over all corpus tokens/runes/dictionary is taken before and after. "
          "Calls lasting >= 0.8 s are not judged for equality (go-diff's 1 s deadline). "
          "Every odd goroutine opens the storm with a never-seen input (a short license with six process-unique words carrying character references: AT&amp;T<n>, &quot;..&quot;, R&#38;D<n>, &copy;<n>, ..) "
          "that no earlier call in the process has tokenized - the sequential reference calls warm up anything keyed by word outside the classifier - and whose reference result is computed alone after the storm. "
          "CLI fan-out part (-race, 2 processes): the identify_license backend's ClassifyLicenses with 2/7/64/1000 tasks over 20-80 files of which some cannot be read (missing, dangling link, directory): "
          "result multiset == sequential Match per file, exactly one error per unreadable file. Non-trivial = storm in which >= 2 calls were observed open at the same time; distinct = (process, storm)."),
    assumptions=list(V2_ASSUME) + ["the race detector only sees interleavings that occur; reports vary from run to run, hence repeated processes"],
    floor_evals={"quick": 10, "thorough": 100},
    floor_nontrivial={"quick": 8, "thorough": 80},
)

SPECS["C11"] = v2spec(
    "TestVerifC11",
    title="Normalize output lines up with Match positions and matches the same",
    rule=("case = one input (every corpus document alone and planted, 5%-edited, concatenations, scenario files, crafted layouts: leading blank/decoration/notice/upper-case-marker lines, hyphen splits, "
          "CR/CRLF, inserted notices). Oracle (a): line k of Normalize(in) holds exactly the words Match attributes to line k (white-box token view, case-folded, interchangeable spellings applied); "
          "(b): Match(Normalize(in)) == Match(in) on licenses, confidence bits, token spans and lines. Every fourth case runs Normalize and both Match calls on one classifier instance. "
          "Failures are attributed to KF-C11-1/2 only by their token-level signatures. Non-trivial = input with >= 1 license match; distinct = distinct input."),
    floor_evals={"quick": 1000, "thorough": 10000},
    floor_nontrivial={"quick": 600, "thorough": 6000},
    timeout={"quick": 1500, "thorough": 3 * 3600},
)

SPECS["C12"] = v2spec(
    "TestVerifC12",
    title="loading a corpus directory equals adding each of its files",
    rule=("case = (generated directory tree, spelling of its path). Trees: 2-13 files at category/name/variant depth (names with spaces, dots, unicode, directories named *txt, suffixes .txt/txt/.mtxt/.TXT/none, empty files; one tree in three holds a document of 70-310 KB, larger than any embedded asset) "
          "plus junk that must be ignored (shallower *.txt files, other suffixes); every fourth tree also has deeper files and *txt directories at depth 3 (only the no-panic claim applies). "
          "Spellings: absolute, absolute/, relative, ./rel, rel/, ./rel/, rel//, rel/., '.', ../parent/rel, symlink/. Oracle: no panic; no ignored file in the corpus; for exact-depth trees LoadLicenses returns nil and the loaded "
          "classifier equals (white-box key set and per-key word sequences; Match results on planted/edited/filler queries) one built with AddContent per file. One case compares assets.DefaultClassifier() with "
          "LoadLicenses(assets) (keys, words, 150/1500 queries). Non-trivial = every case (a LoadLicenses call on a non-empty tree); distinct = (tree, spelling)."),
    floor_evals={"quick": 400, "thorough": 10000},
    floor_nontrivial={"quick": 300, "thorough": 8000},
    shards={"quick": 4, "thorough": 8}, workers={"quick": 1, "thorough": 1},
    timeout={"quick": 1500, "thorough": 3 * 3600},
)


V1_ASSUME = [
    "harness binaries are built from /repo's working tree with `go test -c -tags verif -overlay`; the overlay only ADDS zz_verif_*_test.go files to the package",
    "verdicts are 'held on the executions observed', not proofs",
]


def v1spec(test, pkgdir, harness, **kw):
    d = dict(module=".", pkgdir=pkgdir, harness=harness, test=test, cwd=".", run=run_generic, out=harness[0].replace("/", "_"),
             shards={"quick": 16, "thorough": 16}, workers={"quick": 1, "thorough": 1},
             assumptions=list(V1_ASSUME), level="exploration")
    d.update(kw)
    return d


SPECS["C13"] = v1spec(
    "TestVerifC13", "stringclassifier", ["strcls"],
    title="v1 string classifier finds verbatim occurrences exactly; any value is accepted",
    rule=("case = (set of 1-8 known values of 1-90 tokens over vocabularies of 3-2000 words, flavoured with punctuation / regexp metacharacters / Unicode / invalid UTF-8; normaliser list in "
          "{none, FlattenWhitespace, ToLower+FlattenWhitespace}; threshold in {0.5,0.8,0.9,0.95,1.0}; one value that occurs inside no other is planted into filler from a disjoint vocabulary at the start, "
          "middle, end, twice, or glued to neighbouring letters). Oracle: AddValue never panics; every returned match has Confidence in (0,1] and Offset/Extent inside the normalised unknown; each planted copy is "
          "reported as {value, 1.0, Offset, Extent} with the byte offset known from the construction (cross-checked with strings.Index on the normalised string); NearestMatch(value) = {value, 1.0}. "
          "One worker per child process: MultipleMatch computes in goroutines, so a panic kills the process and the driver attributes it to the case in flight. "
          "Non-trivial = a planted value was searched; distinct = distinct (unknown, threshold, normalisers)."),
    floor_evals={"quick": 10000, "thorough": 150000},
    floor_nontrivial={"quick": 5000, "thorough": 80000},
    timeout={"quick": 1500, "thorough": 3 * 3600},
)


def build_judge(scratch):
    import subprocess
    out = os.path.join(scratch, "judge")
    p = subprocess.run(["go", "build", "-o", out, "."], cwd=os.path.join(driver.VERIF, "judge"), env=driver.goenv(),
                       stdout=subprocess.PIPE, stderr=subprocess.STDOUT, text=True)
    if p.returncode != 0:
        raise driver.HarnessError("cannot build /verif/judge (porcupine): " + p.stdout[-2000:])
    return out


def run_c14(ctx, spec):
    import json
    import subprocess
    tier = ctx["tier"]
    scratch = ctx["scratch"]
    race_bin, bt1 = driver.build_test(scratch, ".", "stringclassifier", ["strcls"], race=True, out="strcls")
    judge = build_judge(scratch)
    cwd = os.path.join(driver.REPO, "stringclassifier")
    repeats = {"quick": 3, "thorough": 10}[tier]
    only = ctx.get("only")
    ctx["gomaxprocs"] = driver.NCPU
    race_log = os.path.join(scratch, "racelog")
    histdir = os.path.join(scratch, "hist")
    os.makedirs(histdir, exist_ok=True)
    env = {"GORACE": "halt_on_error=0 log_path=%s" % race_log, "VERIF_WORKERS": "1", "VERIF_CASE_TIMEOUT": "240", "VERIF_HISTDIR": histdir}
    if only is not None:
        env["VERIF_ONLY"] = str(only)
        repeats = 1
    ctx["tag"] = "C14sc"
    ev1, cr1, sg1 = driver.run_sharded(ctx, race_bin, "TestVerifC14", cwd, repeats, 3600, extra_env=env, parallel=1)
    events, crashes, sigs = list(ev1), list(cr1), set(sg1)
    cov = {"race_build_s": round(bt1, 1), "race_processes": repeats}
    viol = []
    samples = []
    # the root-package part (licenseclassifier.License from an archive), if available
    extra = spec.get("root_part")
    ndones = repeats
    if extra and any(c.get("kind") == "hang" for c in crashes):
        # a confirmed hang in the stringclassifier part settles the verdict; the License
        # part sits on the same code and would only wait for its watchdogs as well
        cov["root_part"] = "skipped: a hang was already confirmed in the stringclassifier part"
        extra = None
    if extra:
        r = extra(ctx, race_log, only)
        events += r["events"]
        crashes += r["crashes"]
        sigs |= r["sigs"]
        ndones += r["dones"]
        cov.update(r.get("cov", {}))
    # race reports
    nrep, distinct = parse_race_logs(race_log + ".*", "licenseclassifier")
    for d in distinct:
        kind = "data-race" if d["repo_related"] else "data-race-in-harness"
        viol.append({"ev": "case", "verdict": "violation", "kind": kind, "gen": "race-detector", "idx": None,
                     "detail": "%d report(s); outermost frames in the module: %s\n%s" % (d["count"], d["outer"], d["example"])})
    cov.update({"race_reports": nrep, "distinct_race_reports": len(distinct)})
    # histories -> porcupine
    files = sorted(glob.glob(os.path.join(histdir, "*.json")))
    verdicts = {"ok": 0, "illegal": 0, "unknown": 0, "error": 0}
    total_ops = 0
    maxclients = 0
    for i in range(0, len(files), 50):
        p = subprocess.run([judge] + files[i:i + 50], stdout=subprocess.PIPE, stderr=subprocess.PIPE, text=True, timeout=7200)
        for line in p.stdout.splitlines():
            try:
                v = json.loads(line)
            except Exception:
                continue
            verdicts[v.get("verdict", "error")] = verdicts.get(v.get("verdict", "error"), 0) + 1
            total_ops += v.get("ops", 0)
            maxclients = max(maxclients, v.get("clients", 0))
            if v.get("verdict") == "illegal":
                hist = json.load(open(v["file"]))
                viol.append({"ev": "case", "verdict": "violation", "kind": "history-not-linearizable", "gen": "history", "idx": v.get("idx"),
                             "detail": "history %s (%d ops, %d clients, %d keys) is not linearizable w.r.t. the per-key model (porcupine). Offending key sub-history:\n%s" % (
                                 v.get("id"), v.get("ops"), v.get("clients"), v.get("keys"), v.get("detail", "")[:3000]),
                             "history": hist})
            elif v.get("verdict") in ("unknown", "error"):
                events.append({"ev": "case", "verdict": "inconclusive", "gen": "history", "idx": v.get("idx"), "detail": "porcupine: %s %s" % (v.get("verdict"), v.get("detail", ""))})
            elif len(samples) < 2:
                hist = json.load(open(v["file"]))
                samples.append({"history": v.get("id"), "clients": v.get("clients"), "keys": v.get("keys"), "porcupine": "ok", "first_ops": hist["ops"][:6]})
    cov.update({"histories_checked": len(files), "porcupine_verdicts": verdicts, "history_ops": total_ops, "max_clients": maxclients})
    if only is None and len(files) < {"quick": 100, "thorough": 2000}[tier]:
        viol.append({"ev": "case", "verdict": "violation", "kind": "harness", "gen": "history", "detail": "only %d histories recorded" % len(files)})
    ctx["expected_dones"] = ndones
    ctx["tag"] = "C14"
    return driver.summarize(ctx, events, crashes, sigs, spec, extra_cov=cov, extra_violations=viol, extra_samples=samples)


SPECS["C14"] = dict(
    run=run_c14, test="TestVerifC14", engine="go-race-detector", level="exploration",
    module=".", pkgdir="stringclassifier", harness=["strcls"], builds=[dict(module=".", pkgdir="stringclassifier", harness=["strcls"], race=True)],
    title="v1 classifiers are safe for concurrent use",
    technique="Go race detector + recorded call histories checked for linearizability with porcupine + differential for read-only storms",
    rule=("history = 2-16 client goroutines issuing ~200 AddValue/MultipleMatch/NearestMatch calls on 2-5 keys of one fresh stringclassifier.Classifier (lazy search sets); unknown string s_k contains value v_k only, "
          "so MultipleMatch(s_k)/NearestMatch(v_k) report k iff AddValue(k) has taken effect and a second AddValue(k) must fail. Every call is recorded {client, op, key, call, return, result} from one monotonic clock and the "
          "history is checked offline with porcupine v1.3.0 against a per-key boolean model (partitioned by key, 60 s cap; Unknown = inconclusive). One case in six is a read-only storm on a classifier whose search sets "
          "are still lazy, compared with sequential results (every other one with a first value of 3200 words, over 20 KB, so that size-dependent paths run in several goroutines at once); one in six a storm of 2-12 callers on a classifier with 12-48 mutually similar values (every value has candidate ranges in "
          "every call: values x callers comparisons in flight), which must return (watchdog) and, where the call made alone has no equal confidences, return the same. All of it runs in -race binaries (3/10 separate processes, GORACE log parsed, reports de-duplicated by outermost module frames). "
          "Non-trivial = every history/storm; distinct = (process, case)."),
    assumptions=list(V1_ASSUME) + ["porcupine's verdict is relative to the recorded call/return timestamps (one monotonic clock per process)"],
    floor_evals={"quick": 100, "thorough": 2000},
    floor_nontrivial={"quick": 100, "thorough": 2000},
)



def run_multi(ctx, spec):
    """Several harness binaries (packages) serve one property; their events are merged."""
    tier = ctx["tier"]
    events, crashes, sigs = [], [], set()
    ndones = 0
    bts = {}
    for part in spec["parts"]:
        binary, bt = driver.build_test(ctx["scratch"], part["module"], part["pkgdir"], part["harness"], race=part.get("race", False),
                                       stubs=part.get("stubs", ()), out=part["out"])
        bts[part["out"]] = round(bt, 1)
        cwd = os.path.join(driver.REPO, part.get("cwd", part["module"]))
        nshards = part.get("shards", {}).get(tier, 1)
        env = {"VERIF_WORKERS": str(part.get("workers", {}).get(tier, 16)), "VERIF_CASE_TIMEOUT": str(part.get("case_timeout", 600))}
        env.update(part.get("env", {}))
        ctx["gomaxprocs"] = max(2, int(env["VERIF_WORKERS"]))
        if ctx.get("only") is not None:
            rp = ctx.get("replay") or {}
            if rp.get("harness") and rp.get("harness") != part["test"] and rp.get("part") != part["out"]:
                continue
            nshards = 1
            env["VERIF_ONLY"] = str(ctx["only"])
            env["VERIF_WORKERS"] = "1"
        ctx["tag"] = spec.get("name", ctx["prop"]) + "_" + part["out"]
        ev, cr, sg = driver.run_sharded(ctx, binary, part["test"], cwd, nshards, part.get("timeout", {}).get(tier, 3600), extra_env=env)
        for e in ev:
            e.setdefault("part", part["out"])
        for c in cr:
            c["part"] = part["out"]
        events += ev
        crashes += cr
        sigs |= set((part["out"].encode() + s) for s in sg)
        ndones += nshards
    ctx["expected_dones"] = ndones
    ctx["tag"] = ctx["prop"]
    post = spec.get("post")
    extra = post(ctx, spec, events, crashes) if post else {}
    cov = {"harness_build_s": bts}
    cov.update((extra or {}).get("cov", {}))
    return driver.summarize(ctx, events, crashes, sigs, spec, extra_cov=cov, extra_violations=(extra or {}).get("violations"),
                            extra_samples=(extra or {}).get("samples"))


SPECS["C20"] = dict(
    run=run_multi, test="TestVerifC20*", level="exploration", exhaustive=True,
    parts=[
        dict(module=".", pkgdir="internal/sets", harness=["sets_common", "stringset"], test="TestVerifC20Sets", out="stringset"),
        dict(module=".", pkgdir="stringclassifier/internal/sets", harness=["sets_common", "intset"], test="TestVerifC20Sets", out="intset"),
        dict(module=".", pkgdir="stringclassifier/internal/pq", harness=["pq"], test="TestVerifC20PQ", out="pq"),
    ],
    builds=[dict(module=".", pkgdir="internal/sets", harness=["sets_common", "stringset"]),
            dict(module=".", pkgdir="stringclassifier/internal/sets", harness=["sets_common", "intset"]),
            dict(module=".", pkgdir="stringclassifier/internal/pq", harness=["pq"])],
    title="internal containers behave as their mathematical models",
    technique="reference models stepped in lock-step with the implementation; exhaustive short histories + seeded long ones",
    rule=("StringSet and IntSet (same engine through an adapter): reference model map[int]bool per slot; EVERY sequence of <= 3 (quick) / 4 (thorough) operations from the full alphabet "
          "(Insert/Delete x 3 elements, Copy/Union/Intersect/Difference/Unique x receiver x argument incl. nil x destination; 64 operations) over 2 live sets, every sequence of <= 4/5 from a reduced alphabet (26 operations), "
          "thorough also 3 live sets; plus seeded sequences of 100-2000 operations over universes of 5-50 and multi-element Insert. After every step every live set is observed completely "
          "(Len, Empty, Contains over the universe, Sorted, Elements, Equal and Disjoint between all pairs and against nil) and every fresh result gets an aliasing probe. "
          "Priority queue: every history of <= 5 (quick) / 6 (thorough) operations from {Push(0..2), Pop, Remove(pos 0..2), Fix(pos 0..2 -> prio 0..2)} (16 operations), plus seeded histories of 200-2000 operations with many ties; "
          "after every step: multiset conserved, every element's last setIndex value equals its heap position (white-box scan), heap order, Min/Pop minimal. exhaustive=true refers to these bounded history spaces. "
          "case = the sub-tree of histories below one first operation, or one random history; distinct = (package, case)."),
    assumptions=list(V1_ASSUME),
    floor_evals={"quick": 1000, "thorough": 40000},
    floor_nontrivial={"quick": 1000, "thorough": 40000},
)

SPECS["C18"] = v1spec(
    "TestVerifC18", "commentparser", ["commentparser"],
    title="comment extraction returns exactly the comments of a source file",
    exhaustive=True,
    technique="differential against a reference lexer driven only by the public language tables; exhaustive short programs + seeded long ones",
    rule=("For each of the 48 languages (Unknown..Yaml): EVERY source string of length <= 6 (quick; 5 for 9-symbol alphabets) / 7 (thorough; 6 for 9-symbol alphabets) over that language's alphabet "
          "(its delimiter characters, quote characters, backslash, newline, one letter, space; <= 9 symbols) is parsed and compared with the reference lexer: same number of comments, same 1-based start/end lines, same "
          "delimiter-free text (invalid bytes compared as U+FFFD); a panic is caught, a hang is caught by the per-case watchdog (double-confirmed). Plus seeded programs of 200-2000 lexemes with adjacency forced "
          "(strings containing comment starts, empty comments, escapes, raw strings, docstrings, invalid UTF-8). ChunkIterator: every list of <= 5/6 comments with line gaps 0-3 and lengths 1-3, and the parser's real "
          "outputs: chunks concatenate to the comment list and are the maximal runs under the adjacency the pinned test defines (next.StartLine <= prev.StartLine+1). exhaustive=true refers to these bounded spaces. "
          "case = the strings below one first symbol of one language / 20 random programs / the lists below one first comment; distinct = case."),
    shards={"quick": 1, "thorough": 2}, workers={"quick": 16, "thorough": 8},
    floor_evals={"quick": 400, "thorough": 1500},
    floor_nontrivial={"quick": 400, "thorough": 1500},
    timeout={"quick": 1500, "thorough": 3 * 3600},
)


ROOT_STUBS = ("classifier_test.go",)


def run_c15(ctx, spec):
    tier = ctx["tier"]
    scratch = ctx["scratch"]
    ser_bin, bt1 = driver.build_test(scratch, ".", "serializer", ["serializer"], out="serializer")
    root_bin, bt2 = driver.build_test(scratch, ".", ".", ["root"], stubs=ROOT_STUBS, out="root")
    ctx["gomaxprocs"] = 8
    # step 1: the real ArchiveLicenses writes the archives (always the full plan: step 2 indexes into it)
    ctx["tag"] = "C15ser"
    ev1, cr1, sg1 = driver.run_sharded(ctx, ser_bin, "TestVerifC15Archive", os.path.join(driver.REPO, "serializer"), 1, 3600,
                                       extra_env={"VERIF_WORKERS": "1", "VERIF_CASE_TIMEOUT": "900"})
    env = {"VERIF_WORKERS": str({"quick": 6, "thorough": 8}[tier]), "VERIF_CASE_TIMEOUT": "1800"}
    nshards = 1
    if ctx.get("only") is not None:
        env["VERIF_ONLY"] = str(ctx["only"])
        env["VERIF_WORKERS"] = "1"
    ctx["tag"] = "C15root"
    ev2, cr2, sg2 = driver.run_sharded(ctx, root_bin, "TestVerifC15", driver.REPO, nshards, 3 * 3600, extra_env=env)
    ctx["expected_dones"] = 2
    ctx["tag"] = "C15"
    cov = {"harness_build_s": {"serializer": round(bt1, 1), "root": round(bt2, 1)}}
    return driver.summarize(ctx, ev1 + ev2, cr1 + cr2, set(b"s" + x for x in sg1) | set(b"r" + x for x in sg2), spec, extra_cov=cov)


SPECS["C15"] = dict(
    run=run_c15, test="TestVerifC15", level="exploration",
    module=".", pkgdir=".", harness=["root"],
    builds=[dict(module=".", pkgdir="serializer", harness=["serializer"]), dict(module=".", pkgdir=".", harness=["root"], stubs=ROOT_STUBS)],
    title="v1 license archive round-trips",
    technique="differential: archive-built License vs License built directly from the same normalised texts",
    rule=("Step 1 (package serializer): the real ArchiveLicenses writes an archive for each seeded set of license files (quick: 4 subsets of 10-25 of the 178 files, one synthetic set, one mixed; "
          "thorough: 38 subsets of 5-44 files, the full 178, 20 synthetic/mixed sets; a non-.txt name is always included and must be skipped; synthetic files are served through the exported ReadLicenseFile variable). "
          "Step 2 (package licenseclassifier; the root package's own classifier_test.go, whose TestMain aborts without licenses.db, is replaced by an empty stub in the overlay): each archive is loaded with "
          "New(t, ArchiveBytes(b)) (must succeed), every license (<= 40 per archive) must be retrievable under its file name via the exact-match path of NearestMatch, no name outside the set may ever be returned, and "
          "MultipleMatch / NearestMatch results on queries (license in context, 3%-edited, two licenses concatenated, filler) must equal those of a License built directly with AddPrecomputedValue from the same normalised "
          "texts. Calls slower than 1.6 s per pair are not judged (go-diff deadline). case = one archive; non-trivial = archive loaded and queried; distinct = (archive, threshold)."),
    assumptions=list(V1_ASSUME) + ["the root package's classifier_test.go is stubbed out in the overlay (its TestMain needs licenses.db, which is not in the tree)"],
    floor_evals={"quick": 10, "thorough": 100},
    floor_nontrivial={"quick": 10, "thorough": 100},
)


def run_c16(ctx, spec):
    tier = ctx["tier"]
    scratch = ctx["scratch"]
    ser_bin, bt1 = driver.build_test(scratch, ".", "serializer", ["serializer"], out="serializer")
    root_bin, bt2 = driver.build_test(scratch, ".", ".", ["root"], stubs=ROOT_STUBS, out="root")
    ctx["gomaxprocs"] = 16
    ctx["tag"] = "C16ser"
    # step 1 serves C16 under the C15 harness name: it writes the archive of all license files
    save = ctx["prop"]
    ctx["prop"] = "C15"
    ev1, cr1, sg1 = driver.run_sharded(ctx, ser_bin, "TestVerifC15Archive", os.path.join(driver.REPO, "serializer"), 1, 3600,
                                       extra_env={"VERIF_WORKERS": "1", "VERIF_CASE_TIMEOUT": "900", "VERIF_C15_PLAN": "full-only"})
    ctx["prop"] = save
    if cr1 or not any(e.get("ev") == "done" for e in ev1):
        raise driver.HarnessError("step 1 (writing the full archive with ArchiveLicenses) failed: %s" % (cr1[:1],))
    env = {"VERIF_WORKERS": "4", "VERIF_CASE_TIMEOUT": "900"}
    if ctx.get("only") is not None:
        env["VERIF_ONLY"] = str(ctx["only"])
        env["VERIF_WORKERS"] = "1"
    ctx["tag"] = "C16root"
    ev2, cr2, sg2 = driver.run_sharded(ctx, root_bin, "TestVerifC16", driver.REPO, 1, 3 * 3600, extra_env=env)
    ctx["expected_dones"] = 1
    ctx["tag"] = "C16"
    return driver.summarize(ctx, ev2, cr2, sg2, spec, extra_cov={"harness_build_s": {"serializer": round(bt1, 1), "root": round(bt2, 1)}})


SPECS["C16"] = dict(
    run=run_c16, test="TestVerifC16", level="exploration",
    module=".", pkgdir=".", harness=["root"],
    builds=[dict(module=".", pkgdir=".", harness=["root"], stubs=ROOT_STUBS)],
    title="v1 License classifier identifies every license in its own corpus",
    technique="oracle by construction (file name -> canonical name) over presentation variants; invariant check of MultipleMatch confidences",
    rule=("The archive of all 178 files under licenses/ is written by the real ArchiveLicenses and loaded with New(DefaultConfidenceThreshold, ArchiveBytes(b)). case = (license file, variant in {as-is, upper, lower, "
          "re-flowed to width 40 / 120 with tabs / 72 with CRLF, lines decorated with '// ', '# ', ' * ', '-- '}): NearestMatch(variant(text)) must name the file's canonical name (file name minus .txt and .header; a corpus file "
          "with the identical normalised text may answer) with confidence at or above the default threshold; only name and the threshold bound are judged, never the exact confidence. "
          "quick: 36 files x 3 variants; thorough: 178 x 6. Plus: on Licenses of 12 random files at thresholds 0.5/0.8/0.9/0.95, every MultipleMatch result over exact/edited/half texts has confidence >= threshold and no '.header' name when includeHeaders=false. "
          "Non-trivial = identified case / threshold case with >= 1 result; distinct = (file, variant)."),
    assumptions=list(V1_ASSUME) + ["the root package's classifier_test.go is stubbed out in the overlay"],
    floor_evals={"quick": 100, "thorough": 1000},
    floor_nontrivial={"quick": 100, "thorough": 1000},
)


def c14_root_part(ctx, race_log, only):
    scratch = ctx["scratch"]
    tier = ctx["tier"]
    ser_bin, _ = driver.build_test(scratch, ".", "serializer", ["serializer"], out="serializer")
    root_bin, bt = driver.build_test(scratch, ".", ".", ["root"], stubs=ROOT_STUBS, race=True, out="root")
    save = ctx["prop"]
    ctx["prop"] = "C15"
    ctx["tag"] = "C14ser"
    ev1, cr1, _ = driver.run_sharded(ctx, ser_bin, "TestVerifC15Archive", os.path.join(driver.REPO, "serializer"), 1, 1800,
                                     extra_env={"VERIF_WORKERS": "1", "VERIF_C15_PLAN": "short12"})
    ctx["prop"] = save
    if cr1 or not any(e.get("ev") == "done" for e in ev1):
        raise driver.HarnessError("C14 root part: writing the archive failed")
    repeats = {"quick": 2, "thorough": 6}[tier]
    env = {"GORACE": "halt_on_error=0 log_path=%s" % race_log, "VERIF_WORKERS": "1", "VERIF_CASE_TIMEOUT": "300"}
    if only is not None:
        env["VERIF_ONLY"] = str(only)
        repeats = 1
    ctx["tag"] = "C14root"
    ev, cr, sg = driver.run_sharded(ctx, root_bin, "TestVerifC14Root", driver.REPO, repeats, 3600, extra_env=env, parallel=1)
    return {"events": ev, "crashes": cr, "sigs": set(b"root" + x for x in sg), "dones": repeats, "cov": {"root_race_build_s": round(bt, 1), "root_race_processes": repeats}}


SPECS["C14"]["root_part"] = c14_root_part
SPECS["C14"]["builds"].append(dict(module=".", pkgdir=".", harness=["root"], stubs=ROOT_STUBS, race=True))
SPECS["C14"]["rule"] += (" Root part: a licenseclassifier.License loaded from an archive of 12 short licenses (written by the real ArchiveLicenses) is hit by 4-16 goroutines calling MultipleMatch/NearestMatch "
                         "(-race binary, 2/6 processes); results are compared with the same calls made alone.")


def run_c19(ctx, spec):
    import json
    import random
    import subprocess
    tier = ctx["tier"]
    scratch = ctx["scratch"]
    t_build = driver.time.time()
    cli = driver.build_prog(scratch, "v2", "./tools/identify_license", "identify_license")
    cli_race = driver.build_prog(scratch, "v2", "./tools/identify_license", "identify_license.race", race=True)
    hbin, bt = driver.build_test(scratch, "v2", ".", ["v2"], out="v2")
    build_s = driver.time.time() - t_build
    env = {"VERIF_WORKERS": "8", "VERIF_CASE_TIMEOUT": "600"}
    only = ctx.get("only")
    if only is not None:
        env["VERIF_ONLY"] = str(only)
        env["VERIF_WORKERS"] = "1"
    ctx["gomaxprocs"] = 8
    events, crashes, sigs = driver.run_sharded(ctx, hbin, "TestVerifC19Expect", os.path.join(driver.REPO, "v2"), 1, 3600, extra_env=env)
    trees = []
    for f in sorted(glob.glob(os.path.join(scratch, "c19", "t*.json"))):
        tr = json.load(open(f))
        for fl in tr["files"]:
            fl["matches"] = fl.get("matches") or []
        trees.append(tr)
    rng = random.Random(int(ctx["seed"]) * 7919 + 19)
    viol = []
    samples = []
    ninv = 0
    nlines = 0
    ntext = 0
    race_log = os.path.join(scratch, "clirace")
    line_re = re.compile(r"^(.*) (\S+) \(variant: (.*), confidence: (\S+), start: (\d+), end: (\d+)\)$")

    def add(kind, tree, flags, detail):
        viol.append({"ev": "case", "verdict": "violation", "kind": kind, "gen": "cli", "idx": int(os.path.basename(tree["dir"])[1:]),
                     "detail": "identify_license %s on %s: %s" % (" ".join(flags), tree["dir"], detail), "params": {"flags": flags, "tree": tree["dir"]}})

    for tree in trees:
        nfiles = len(tree["files"])
        combos = []
        task_choices = [1, 2, 7, 1000]
        for k in range(3 if tier == "quick" else 4):
            headers = rng.random() < 0.5
            mode = rng.choice(["plain", "json", "json+text", "json+text"])
            tasks = task_choices[(k + rng.randrange(4)) % 4]
            combos.append((headers, mode, tasks, False))
        if nfiles >= 4:
            combos.append((True, "plain", rng.choice([7, 1000]), True))  # the -race build on multi-file trees
        base_out = None
        for (headers, mode, tasks, use_race) in combos:
            flags = ["-tasks", str(tasks)]
            if headers:
                flags.append("-headers")
            jpath = None
            if mode != "plain":
                jpath = os.path.join(scratch, "c19", "out_%d.json" % ninv)
                flags += ["-json", jpath]
                if mode == "json+text":
                    flags.append("-include_text")
            # pass the directory, or (sometimes) the files one by one
            args = [tree["dir"]] if rng.random() < 0.7 else [f["abs"] for f in tree["files"]]
            envp = dict(os.environ)
            if use_race:
                envp["GORACE"] = "halt_on_error=0 log_path=%s" % race_log
            try:
                p = subprocess.run([cli_race if use_race else cli] + flags + args, stdout=subprocess.PIPE, stderr=subprocess.PIPE, timeout=1800, env=envp)
            except subprocess.TimeoutExpired:
                add("cli-timeout", tree, flags, "no result within 1800 s")
                continue
            ninv += 1
            out = p.stdout.decode("utf-8", "replace")
            got = {}
            bad = None
            for line in out.splitlines():
                m = line_re.match(line)
                if not m:
                    bad = line
                    continue
                got.setdefault(m.group(1), []).append(line[len(m.group(1)) + 1:])
                nlines += 1
            want = {}
            for f in tree["files"]:
                ms = [m["line"] for m in f["matches"] if headers or not m["header"]]
                if ms:
                    want[f["abs"]] = ms
            if bad is not None:
                add("unparsable-output", tree, flags, "stdout line %r" % bad[:300])
                continue
            diff = None
            for fn in sorted(set(got) | set(want)):
                if sorted(got.get(fn, [])) != sorted(want.get(fn, [])):
                    diff = "file %s: CLI printed %s, the library's Match gives %s" % (fn, sorted(got.get(fn, [])), sorted(want.get(fn, [])))
                    break
            if diff:
                add("cli-differs-from-library", tree, flags, diff + "\nstderr tail: " + p.stderr.decode("utf-8", "replace")[-600:])
                continue
            # confidence order of the printed lines
            confs = [float(line_re.match(l).group(4)) for l in out.splitlines()]
            if any(confs[i] < confs[i + 1] for i in range(len(confs) - 1)):
                add("output-not-sorted-by-confidence", tree, flags, "confidences %s" % confs[:20])
                continue
            printed = sum(len(v) for v in got.values())
            if (p.returncode == 0) != (printed > 0):
                add("exit-status", tree, flags, "exit status %d with %d printed match(es); stderr tail: %s" % (p.returncode, printed, p.stderr.decode("utf-8", "replace")[-600:]))
                continue
            if jpath and printed > 0:
                try:
                    jr = json.load(open(jpath))
                except Exception as ex:
                    add("json-missing", tree, flags, "JSON output not written/parsable: %s" % ex)
                    continue
                jgot = {}
                for fc in jr:
                    for c in fc["Classifications"]:
                        jgot.setdefault(fc["Filepath"], []).append(c)
                byabs = {f["abs"]: f for f in tree["files"]}
                for fn, cls in jgot.items():
                    exp = [m for m in byabs[fn]["matches"] if headers or not m["header"]] if fn in byabs else []
                    if sorted((c["Name"], c["StartLine"], c["EndLine"], repr(float(c["Confidence"]))) for c in cls) != sorted((m["name"], m["start"], m["end"], repr(float(m["conf"]))) for m in exp):
                        add("json-differs-from-library", tree, flags, "file %s: %s vs %s" % (fn, [(c["Name"], c["StartLine"], c["EndLine"]) for c in cls], [(m["name"], m["start"], m["end"]) for m in exp]))
                        break
                    if mode == "json+text":
                        data = open(fn, "rb").read().decode("utf-8", "surrogateescape")
                        flines = data.split("\n")
                        for c in cls:
                            want_text = "".join((flines[i - 1][:-1] if flines[i - 1].endswith("\r") else flines[i - 1]) + "\n" for i in range(c["StartLine"], c["EndLine"] + 1) if i - 1 < len(flines))
                            got_text = c.get("Text", "")
                            # JSON encoding replaces invalid UTF-8 by U+FFFD: compare after the same mapping
                            wt = want_text.encode("utf-8", "surrogateescape").decode("utf-8", "replace")
                            ntext += 1
                            if got_text != wt:
                                add("include-text-differs", tree, flags, "file %s lines %d-%d: Text has %d chars, the file's lines %d chars; first difference near %r vs %r" % (
                                    fn, c["StartLine"], c["EndLine"], len(got_text), len(wt), got_text[:80], wt[:80]))
                                break
                if set(jgot) != set(want):
                    add("json-differs-from-library", tree, flags, "files in JSON %s vs expected %s" % (sorted(jgot), sorted(want)))
            elif jpath and printed == 0 and os.path.exists(jpath):
                pass
            # independence of -tasks: same multiset as the first invocation with the same -headers
            if len(samples) < 2 and printed > 0:
                samples.append({"flags": flags, "tree_files": nfiles, "stdout_head": out.splitlines()[:3], "exit": p.returncode})
    nrep, distinct = parse_race_logs(race_log + ".*", "licenseclassifier/v2")
    for d in distinct:
        viol.append({"ev": "case", "verdict": "violation", "kind": "data-race", "gen": "cli-race", "idx": None,
                     "detail": "%d report(s) from the -race build of identify_license; outermost module frames %s\n%s" % (d["count"], d["outer"], d["example"])})
    cov = {"build_s": round(build_s, 1), "cli_invocations": ninv, "stdout_match_lines_compared": nlines, "include_text_blocks_compared": ntext,
           "trees": len(trees), "race_reports": nrep}
    ctx["expected_dones"] = 1
    if only is None and ninv < {"quick": 30, "thorough": 800}[tier]:
        viol.append({"ev": "case", "verdict": "violation", "kind": "harness", "gen": "cli", "detail": "only %d CLI invocations" % ninv})
    return driver.summarize(ctx, events, crashes, sigs, spec, extra_cov=cov, extra_violations=viol, extra_samples=samples)


SPECS["C19"] = dict(
    run=run_c19, test="TestVerifC19Expect", level="exploration",
    module="v2", pkgdir=".", harness=["v2"],
    title="the identify_license CLI reports what the library finds",
    technique="differential: CLI child process (built from the tree, also with -race) vs in-process Match on the same files",
    rule=("tree = 1-60 generated files in nested directories (licensed, edited, several licenses, header in a comment, unlicensed, empty, notice only, no trailing newline, CRLF with every fifth line ending in CR CR LF, a line of 70 000-200 000 bytes "
          "before/inside/after the license, invalid UTF-8; every sixth tree has no license at all; every third tree also has a symbolic link to one of its files, expected to be reported like its target). For each tree the CLI built from the working tree is run 3-5 times with seeded flag combinations "
          "{-headers} x {stdout only, -json, -json -include_text} x -tasks in {1,2,7,1000}, given the directory or the file list; multi-file trees are also run with the -race build (reports parsed). Oracle: per file, the "
          "multiset of printed matches equals what Match returns in-process on assets.DefaultClassifier() for the file's bytes (Header matches only with -headers), lines are sorted by confidence, the JSON classifications "
          "equal them, each Text equals lines StartLine..EndLine of the file, exit status 0 iff at least one match was printed. case = tree (expected results) ; CLI invocations are counted in coverage. "
          "Non-trivial = every tree; distinct = tree."),
    assumptions=list(V2_ASSUME) + ["the CLI's output format is parsed with a regular expression anchored at '(variant: ..., confidence: ..., start: ..., end: ...)'"],
    floor_evals={"quick": 12, "thorough": 300},
    floor_nontrivial={"quick": 12, "thorough": 300},
)


SPECS["C17"] = dict(
    run=run_multi, test="TestVerifC17*", level="exploration", exhaustive=True,
    parts=[
        dict(module=".", pkgdir="stringclassifier/searchset", harness=["searchset"], test="TestVerifC17", out="searchset",
             shards={"quick": 1, "thorough": 2}, workers={"quick": 16, "thorough": 8}),
        dict(module=".", pkgdir="stringclassifier", harness=["strcls"], test="TestVerifC17Matches", out="strcls",
             shards={"quick": 8, "thorough": 16}, workers={"quick": 1, "thorough": 1}),
    ],
    builds=[dict(module=".", pkgdir="stringclassifier/searchset", harness=["searchset"]), dict(module=".", pkgdir="stringclassifier", harness=["strcls"])],
    title="v1 token offsets and candidate ranges always delimit real text",
    technique="invariant checks on tokenizer output, candidate ranges and returned Match ranges; exhaustive short strings + seeded workloads",
    rule=("(1) tokenizer invariants (text == s[Offset:Offset+len], increasing non-overlapping tokens, every non-space rune covered, no whitespace inside a token) on EVERY string of length <= 5 (quick) / 6 (thorough) "
          "over the 10-symbol alphabet {a, b, space, '.', newline, 0xFF, e-acute, a literal U+FFFD, NUL, soft hyphen} (exhaustive=true refers to this sub-space), plus seeded long strings over a 14-symbol alphabet incl. NBSP, CJK, combining marks, "
          "U+2028, truncated UTF-8; (2) FindPotentialMatches invariants (candidates non-empty, ordered by target position, inside the target's token bounds, byte range 0 <= start <= end <= len(target)) on seeded "
          "(source, target) pairs from vocabularies of 2-8 one-letter words (highly repetitive), lengths 3-40, with/without an embedded copy, several separators incl. invalid bytes; "
          "(3) classifier level: for seeded (known values, unknown text) pairs incl. verbatim occurrences that begin/end in the middle of a token, sit strictly inside one token, are glued to punctuation or end the text, "
          "every Match returned by MultipleMatch/NearestMatch satisfies 0 <= Offset, Offset+Extent <= len(normalised unknown) and no call panics (one worker per process; a goroutine panic is attributed to the case). "
          "case = one block of strings / 500 pairs / one classifier call; non-trivial = block judged, pair block with >= 1 candidate, call with >= 1 match; distinct = case."),
    assumptions=list(V1_ASSUME),
    floor_evals={"quick": 5000, "thorough": 50000},
    floor_nontrivial={"quick": 3000, "thorough": 30000},
)


# ---------------------------------------------------------------------------
# what each check claims (MANIFEST level_claimed.text / level_note)

LEVEL_TEXT = {
    "C01": "Exploration: every embedded corpus document (all 431) and seeded synthetic corpora are planted into out-of-vocabulary context at thresholds 0.7-1.0 and the reported match is compared with positions known from the construction. Held on the executions observed; the input space (contexts, user corpora) is unbounded, so no stronger level is claimed.",
    "C02": "Exploration with an independent oracle: every license match returned for thousands of edited / truncated / concatenated / adversarial inputs is re-scored with a word-level Levenshtein distance computed by the harness (banded DP) and its lines are checked against the token view and, for generator-built layouts, the physical lines. A universal claim over inputs cannot be enumerated; held on what was generated.",
    "C03": "Exploration: direct invariant check (threshold, known triple, line and token ranges, ordering, Copyright shape) on every result of seeded workloads at nine thresholds from 0.01 to 1.0, including hostile bytes and hyphen/blank-line layouts.",
    "C04": "Exploration across processes: the same seeded queries are answered by 8 separately started processes (different map-iteration seeds) in 8 corpus/trace configurations, three times each with other calls in between; results are compared bit for bit in returned order. Nondeterminism that needs a particular map order is only seen if some process draws it - hence several processes, and still only 'held on what was observed'.",
    "C05": "Exploration (metamorphic): presentation transformations and their compositions are applied to license-bearing texts; results must agree exactly. The transformation space is unbounded.",
    "C06": "Exploration (metamorphic) with five recorded findings (KF-C06-1..5) handled by token-level signatures; everything outside the signatures is reported.",
    "C07": "Exploration (metamorphic over six placements per text: alone, suffix only, prefix only, both, far, far'); every pair of placements must agree after shifting - no exemption since the former finding KF-C07-1 was repaired.",
    "C08": "Fault enumeration: for each selected input EVERY pad width 0..2056 and EVERY reader-failure offset 0..len(input) (two delivery styles) is executed, plus nine fragmenting readers; the enumeration is complete for those inputs (exhaustive=true), the choice of inputs is seeded.",
    "C09": "Exploration of schedules: the Go race detector observes repeated concurrent storms (fresh classifier per storm, several processes) and every concurrent result is compared with the sequential one. The race detector only sees interleavings that occur; a clean run is not a proof of race freedom.",
    "C10": "Exploration: structure-aware hostile inputs x thresholds x corpora under recover(), process-death attribution and a double-confirmed watchdog. Totality over all byte strings cannot be enumerated.",
    "C11": "Exploration with two oracles (structural line alignment against the white-box token view; metamorphic Match(Normalize(in)) == Match(in)); three recorded findings handled by token-level signatures.",
    "C12": "Exploration: generated directory trees x 11 spellings of the path; white-box corpus comparison and behavioural equivalence with AddContent; DefaultClassifier vs LoadLicenses(assets).",
    "C13": "Exploration: generated value sets / unknown strings with offsets known by construction, one worker per process so that panics in the classifier's own goroutines are attributed to the case.",
    "C14": "Exploration of schedules: race detector + porcupine linearizability check of recorded call histories against a per-key model + differential for read-only storms.",
    "C15": "Exploration (differential): archives written by the real ArchiveLicenses for seeded subsets are loaded and compared with directly built classifiers on seeded queries.",
    "C16": "Exploration: all corpus files (thorough) / a seeded sample (quick) x presentation variants must be identified; MultipleMatch confidences are checked against the threshold with an oracle that does not use the code's own comparison, including a sweep across the threshold cliff.",
    "C17": "Exploration with an exhaustive core: tokenizer invariants on every string up to length 6/7 over an 8-symbol hostile alphabet (exhaustive=true for that sub-space) plus seeded strings and (source, target) pairs for the candidate-range invariants.",
    "C18": "Exploration with an exhaustive core: differential against a reference lexer (own per-language syntax table) on every source string up to length 5-7 per language over its delimiter alphabet (exhaustive=true for that sub-space), seeded long programs, exhaustive short comment lists for ChunkIterator.",
    "C19": "Exploration: the CLI built from the tree (also with -race) is run on generated trees with seeded flag combinations and compared with in-process Match results, JSON, Text and exit status.",
    "C20": "Exploration with an exhaustive core: reference models in lock-step; every operation sequence up to the stated depth over a small universe (exhaustive=true for those bounded spaces), seeded long sequences; aliasing probes and white-box index scan.",
}
for _k, _v in LEVEL_TEXT.items():
    SPECS[_k]["level_text"] = _v


TECHNIQUE = {
    "C01": "runtime monitoring: planted-copy oracle (positions known by construction) over seeded workloads",
    "C02": "runtime monitoring: independent word-level Levenshtein oracle and physical-line oracle on every returned match",
    "C03": "runtime monitoring: invariant checker on every returned Results",
    "C04": "runtime monitoring: offline comparison of recorded results across 9 processes/configurations + in-process repetition, argument canaries",
    "C05": "runtime monitoring: metamorphic comparison (presentation transformations)",
    "C06": "runtime monitoring: metamorphic comparison with token-level known-finding signatures",
    "C07": "runtime monitoring: metamorphic comparison over seven placements of each text",
    "C08": "runtime monitoring with fault injection at the io.Reader boundary: every pad width and every failure offset for the selected inputs",
    "C10": "runtime monitoring: hostile-input workload under recover(), process-death attribution, double-confirmed watchdog",
    "C11": "runtime monitoring: structural line-alignment oracle + metamorphic comparison, token-level known-finding signatures",
    "C12": "runtime monitoring: generated directory trees x path spellings, white-box corpus comparison and behavioural equivalence",
    "C13": "runtime monitoring: offsets known by construction, bounds invariants, one case per goroutine-spawning call in child processes",
    "C15": "runtime monitoring: differential (archive-loaded vs directly built classifier)",
    "C16": "runtime monitoring: oracle by construction (file name) over presentation variants + independent threshold invariant",
    "C19": "runtime monitoring: differential of the CLI child process (plain and -race builds) against in-process Match",
}
for _k, _v in TECHNIQUE.items():
    SPECS[_k]["technique"] = _v
