#!/usr/bin/env python3
"""Regenerates /verif/MANIFEST.json from lib/specs.py (single source of truth)."""
import json
import os
import subprocess
import sys

sys.path.insert(0, os.path.dirname(os.path.abspath(__file__)))
import specs  # noqa: E402

VERIF = os.path.dirname(os.path.dirname(os.path.abspath(__file__)))
ALL = ["C%02d" % i for i in range(1, 21)]


def main():
    checks = []
    for pid in ALL:
        sp = specs.SPECS.get(pid)
        if not sp or sp.get("disabled"):
            continue
        checks.append({
            "property_id": pid,
            "quick_cmd": "./check %s quick" % pid,
            "thorough_cmd": "./check %s thorough" % pid,
            "evidence_file": "evidence/%s.json" % pid,
            "replay_cmd_template": "./check replay {path}",
            "engine": sp.get("engine", "go-harness"),
            "level_claimed": {
                "category": sp.get("level", "exploration"),
                "text": sp.get("level_text") or ("Runtime monitoring: the property held on every execution the seeded workload produced (counts in the evidence file); "
                                                  "no claim beyond the executions observed. " + sp.get("title", "")),
                "design_ref": "DESIGN.md §3 " + pid,
            },
            "level_note": sp.get("level_note") or ("Trusted: the Go toolchain, the harness' own oracle code under /verif/harness, "
                                                   "the white-box shim (tokenizeStream / dict / docs) for v2 properties; see assumptions in the evidence file."),
            "technique": sp.get("technique", "runtime monitoring: seeded workload + oracle over observed executions"),
        })
    na = []
    for pid in ALL:
        if pid not in specs.SPECS or specs.SPECS[pid].get("disabled"):
            na.append({"property_id": pid, "reason": specs.NOT_CLAIMED.get(pid, "no check registered yet (under construction)")})
    hooks_commits = []
    man = {
        "version": 1,
        "setup_cmd": "./scripts/setup.sh",
        "hooks": {
            "guard": "verif",
            "enable": "go test -c -tags verif -overlay <generated>.json (harness sources under /verif/harness are added to the packages as zz_verif_*_test.go; no source hook lives in /repo)",
            "baseline_off_cmd": "./scripts/baseline_off.sh",
            "source_commits": hooks_commits,
            "add_only": True,
        },
        "engines": [
            {"name": "go-harness", "path": "check", "serves_properties": [c["property_id"] for c in checks if c["engine"] == "go-harness"],
             "kind_free_text": "python driver + Go in-package harnesses injected with go test -overlay under build tag verif; child processes, event logs, offline judge"},
            {"name": "go-race-detector", "path": "check", "serves_properties": [c["property_id"] for c in checks if c["engine"] == "go-race-detector"],
             "kind_free_text": "go test -race builds of the same harnesses; reports parsed from GORACE log_path files"},
            {"name": "porcupine-judge", "path": "judge", "serves_properties": ["C14"],
             "kind_free_text": "Go program (module verif/judge, porcupine v1.3.0): linearizability of recorded AddValue/MultipleMatch/NearestMatch histories against a per-key model"},
        ],
        "checks": checks,
        "notes": "See DESIGN.md. Known findings: known_findings.json. Seeded breaks used to validate the monitors: seeded/.",
        "not_applicable": na,
    }
    with open(os.path.join(VERIF, "MANIFEST.json"), "w") as fh:
        json.dump(man, fh, indent=1)
        fh.write("\n")
    try:
        import jsonschema
        jsonschema.validate(man, json.load(open("/root/.vp/MANIFEST.schema.json")))
        print("MANIFEST.json valid: %d checks, %d not_applicable" % (len(checks), len(na)))
    except ImportError:
        print("MANIFEST.json written (jsonschema not available)")


if __name__ == "__main__":
    main()
