#!/bin/bash
# Confirms a seeded breaking change and runs the registered check(s) against it.
#   verify_seed.sh <dir-with-patch-and-demo> <label A|B> <property> [tier] [extra properties...]
# <dir> contains <label>.patch.diff and <label>.demo_test.go whose first line reads
#   // copy to <repo-relative dir> ; run: <command>
# Steps (all in scratch worktrees outside /repo and /verif, removed afterwards):
#   1. the patch applies and the pinned suite still passes with it (baseline_off.sh)
#   2. the demonstration FAILS with the patch and PASSES without it
#   3. ./check <property> <tier> against the patched worktree -> exit status reported
set -u
SRC=$1; L=$2; PROP=$3; TIER=${4:-quick}; shift 4 2>/dev/null; EXTRA="$*"
export GOFLAGS=-mod=mod GOPROXY=off GOSUMDB=off GOTOOLCHAIN=local
PATCH="$SRC/$L.patch.diff"; DEMO="$SRC/$L.demo_test.go"
[ -f "$PATCH" ] || { echo "no patch $PATCH"; exit 2; }
hdr=$(head -1 "$DEMO" 2>/dev/null)
ddir=$(echo "$hdr" | sed -n 's#^// *[Cc]opy to \([^;]*\);.*#\1#p' | awk '{print $1}')
dcmd=$(echo "$hdr" | sed -n 's#.*run: *\(.*\)$#\1#p' | sed 's#  *(.*$##')
WT=$(mktemp -d /var/tmp/seedwt.XXXXXX); CLEAN=$(mktemp -d /var/tmp/seedclean.XXXXXX)
cleanup() { git -C /repo worktree remove --force "$WT" 2>/dev/null; git -C /repo worktree remove --force "$CLEAN" 2>/dev/null; rm -rf "$WT" "$CLEAN"; }
trap cleanup EXIT
git -C /repo worktree add -q --detach "$WT" HEAD || exit 2
git -C /repo worktree add -q --detach "$CLEAN" HEAD || exit 2
(cd "$WT" && git apply "$PATCH") || { echo "RESULT patch_applies=no"; exit 2; }
echo "== patch: $(cd "$WT" && git diff --stat | tail -1)"
suite=$(/verif/scripts/baseline_off.sh "$WT" | head -1)
echo "== pinned suite with patch: $suite"
suite_ok=no; echo "$suite" | grep -q "missing=0" && suite_ok=yes
demo_fail=unknown; demo_pass=unknown
if [ -n "$ddir" ] && [ -n "$dcmd" ]; then
  name=$(basename "$DEMO"); name="zz_seed_${L}_${name}"
  cp "$DEMO" "$WT/$ddir/$name"; cp "$DEMO" "$CLEAN/$ddir/$name"
  # demos may reference relative dirs like "cd v2 && ..."
  (cd "$WT" && timeout 900 bash -c "$dcmd" >/var/tmp/seed_demo_with.$$ 2>&1); rc1=$?
  (cd "$CLEAN" && timeout 900 bash -c "$dcmd" >/var/tmp/seed_demo_without.$$ 2>&1); rc2=$?
  [ $rc1 -ne 0 ] && demo_fail=yes || demo_fail=no
  [ $rc2 -eq 0 ] && demo_pass=yes || demo_pass=no
  echo "== demo with patch rc=$rc1 (tail: $(tail -3 /var/tmp/seed_demo_with.$$ | tr '\n' ' ' | cut -c1-300))"
  echo "== demo without patch rc=$rc2 (tail: $(tail -2 /var/tmp/seed_demo_without.$$ | tr '\n' ' ' | cut -c1-200))"
  rm -f "$WT/$ddir/$name" /var/tmp/seed_demo_with.$$ /var/tmp/seed_demo_without.$$
else
  echo "== demo header not understood: $hdr"
fi
cd /verif
res=""
for p in $PROP $EXTRA; do
  out=$(VERIF_REPO="$WT" ./check "$p" "$TIER" 2>&1); rc=$?
  echo "== check $p $TIER against the patched tree: exit $rc | $(echo "$out" | tail -1 | cut -c1-220)"
  echo "$out" | grep -E "^(VIOLATION|ERROR)" | head -2 | cut -c1-300
  echo "$out" | grep -A2 "^VIOLATION" | sed -n 2,3p | cut -c1-400
  res="$res $p=$rc"
done
echo "RESULT suite_ok=$suite_ok demo_fails_with=$demo_fail demo_passes_without=$demo_pass checks:$res"
