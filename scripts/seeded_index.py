#!/usr/bin/env python3
"""Writes seeded/INDEX.md: one line per seeded change (what, what it needs, which check catches it)."""
import glob, json, os
root = os.path.join(os.path.dirname(os.path.abspath(__file__)), "..", "seeded")
rows = []
for f in sorted(glob.glob(os.path.join(root, "*", "meta.json"))):
    m = json.load(open(f))
    det = m.get("detected_by", {})
    conf = m.get("confirmed", {})
    ok = all(conf.get(k) for k in ("pinned_suite_passes_with_patch", "demo_fails_with_patch", "demo_passes_without_patch")) if conf else None
    rows.append((m["id"], m["property"], m.get("round", 1), m["change"], m["needs_to_manifest"],
                 "yes" if ok else ("?" if ok is None else "NO"),
                 ("%s -> exit %s" % (det.get("check", "?"), det.get("exit", "?"))) if det else "not yet run",
                 ("first pass: missed" if m.get("history") else "first pass: caught")
                 + ("; overtaken by a later repair (kept with its earlier result)" if m.get("superseded_note") else "")
                 + ("; NOT flagged by decision (see DESIGN §3 C17)" if m.get("disposition") else "")
                 + ("; patch re-based" if m.get("rebased") else "")))
with open(os.path.join(root, "INDEX.md"), "w") as fh:
    fh.write("# Seeded breaking changes\n\nEach directory holds `patch.diff`, `demo_test.go`, `meta.json` (and the writing agent's README). None of these was ever applied to /repo; "
             "`scripts/seeded_run.sh` re-confirms them in scratch worktrees and records which check catches them.\n\n")
    fh.write("| id | round | change | needs | confirmed | caught by | history |\n|---|---|---|---|---|---|---|\n")
    for r in rows:
        fh.write("| %s | %s | %s | %s | %s | %s | %s |\n" % (r[0], r[2], r[3].replace("|", "\\|"), r[4].replace("|", "\\|"), r[5], r[6], r[7]))
    n = len(rows)
    caught = sum(1 for r in rows if "exit 1" in r[6])
    over = sum(1 for r in rows if "overtaken" in r[7])
    undecided = sum(1 for r in rows if "NOT flagged" in r[7])
    fh.write("\n%d changes, %d caught by the quick check of their property (exit 1) when last run, %d missed by the first version of the check and caught after it was strengthened, "
             "%d overtaken by later repairs of /repo (patch no longer applies, suite fails with it, or the change is neutralised), %d deliberately not flagged.\n" % (
        n, caught, sum(1 for r in rows if "missed" in r[7]), over, undecided))
print("seeded/INDEX.md written:", len(rows), "entries")
