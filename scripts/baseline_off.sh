#!/bin/bash
# Runs the repository's pinned test suite (both Go modules) with the verif guard
# OFF and compares the set of passing tests with /root/.vp/BASELINE.json.
# Uses a private -modfile copy so /repo/go.sum is never rewritten.
# Usage: baseline_off.sh [repo_dir]   (default /repo)
set -u
REPO="${1:-/repo}"
export GOFLAGS=-mod=mod GOPROXY=off GOSUMDB=off GOTOOLCHAIN=local
TMP=$(mktemp -d /var/tmp/verif-baseline.XXXXXX)
trap 'rm -rf "$TMP"' EXIT
rc=0
: > "$TMP/all.json"
for m in . v2; do
  mkdir -p "$TMP/$m"
  cp "$REPO/$m/go.mod" "$TMP/$m/go.mod"
  cp "$REPO/$m/go.sum" "$TMP/$m/go.sum"
  (cd "$REPO/$m" && go test -modfile="$TMP/$m/go.mod" -json -vet=off -count=1 -timeout 25m ./... ) >> "$TMP/all.json" 2>"$TMP/err.$$" || true
done
python3 - "$TMP/all.json" <<'EOF'
import json,sys
base=json.load(open('/root/.vp/BASELINE.json'))
want=set(base['stable_pass'])
got=set(); failed=set()
for line in open(sys.argv[1]):
    line=line.strip()
    if not line.startswith('{'): continue
    try: e=json.loads(line)
    except Exception: continue
    if e.get('Test') and e.get('Action') in ('pass','fail'):
        k=e['Package']+'::'+e['Test']
        (got if e['Action']=='pass' else failed).add(k)
missing=sorted(want-got)
print("baseline: want=%d passed=%d failed=%d missing=%d"%(len(want),len(got&want),len(failed),len(missing)))
for m in missing[:50]: print("  MISSING/FAILED:",m)
sys.exit(1 if missing else 0)
EOF
rc=$?
exit $rc
