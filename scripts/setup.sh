#!/bin/bash
# Offline setup: nothing is fetched. Warms the Go build cache for the harness
# binaries (plain and -race) so that the first check does not pay for it, and
# verifies that the toolchain and the repository are where the checks expect them.
set -u
cd "$(dirname "$0")/.."
export GOFLAGS=-mod=mod GOPROXY=off GOSUMDB=off GOTOOLCHAIN=local
command -v go >/dev/null || { echo "go toolchain not found"; exit 1; }
test -d "${VERIF_REPO:-/repo}/v2/assets" || { echo "repository not found"; exit 1; }
python3 lib/warm.py || exit 1
echo "setup ok"
