#!/bin/bash
# Runs every registered check once (tier $1, default quick) and prints one line per check.
# Usage: sweep.sh [quick|thorough] [props...]
cd "$(dirname "$0")/.."
tier=${1:-quick}; shift
props=${@:-$(python3 check list | awk '{print $1}')}
fail=0
for p in $props; do
  t0=$(date +%s)
  out=$(./check $p $tier 2>&1); rc=$?
  t1=$(date +%s)
  echo "$p rc=$rc $((t1-t0))s | $(echo "$out" | tail -1 | cut -c1-200)"
  if [ $rc -ne 0 ]; then fail=1; echo "$out" | grep -E "^(VIOLATION|ERROR)" | head -5; fi
done
exit $fail
