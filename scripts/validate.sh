#!/bin/bash
# Validates MANIFEST.json and every evidence file against the schemas (uses the tooling venv's jsonschema).
cd "$(dirname "$0")/.."
python3-vt - <<'EOF'
import json, glob, jsonschema, sys
ok = True
try:
    jsonschema.validate(json.load(open("MANIFEST.json")), json.load(open("/root/.vp/MANIFEST.schema.json")))
    print("MANIFEST.json ok")
except Exception as e:
    ok = False; print("MANIFEST.json INVALID:", str(e)[:400])
sch = json.load(open("/root/.vp/EVIDENCE.schema.json"))
for f in sorted(glob.glob("evidence/*.json")):
    try:
        jsonschema.validate(json.load(open(f)), sch); print(f, "ok")
    except Exception as e:
        ok = False; print(f, "INVALID:", str(e)[:400])
sys.exit(0 if ok else 1)
EOF
