#!/bin/bash
# Re-confirms every seeded change under /verif/seeded and runs the registered quick check of
# its property against it (in scratch worktrees; /repo is never modified). Updates meta.json.
#   seeded_run.sh [ids...]     (default: all)
cd "$(dirname "$0")/.."
ids=${@:-$(ls seeded)}
for id in $ids; do
  d=seeded/$id
  prop=$(python3 -c "import json;print(json.load(open('$d/meta.json'))['property'])")
  tmp=$(mktemp -d /var/tmp/seedrun.XXXXXX)
  cp $d/patch.diff $tmp/X.patch.diff; cp $d/demo_test.go $tmp/X.demo_test.go
  if [ "$id" = "C09-A" ]; then sed -i '1s#-run TestSeedA \.#-race -run TestSeedA .#' $tmp/X.demo_test.go; fi
  out=$(scripts/verify_seed.sh $tmp X $prop quick 2>&1)
  rm -rf $tmp
  res=$(echo "$out" | grep '^RESULT')
  viol=$(echo "$out" | grep -m1 '^  kind=' | cut -c1-300)
  python3 - "$d/meta.json" "$res" "$viol" "$prop" <<'EOF'
import json,sys,re,time
p,res,viol,prop=sys.argv[1:5]
m=json.load(open(p))
head=__import__('subprocess').check_output(['git','-C','/repo','log','--format=%h','-1']).decode().strip()
kv=dict(x.split('=') for x in res.replace('RESULT','').replace('checks:','').split() if '=' in x)
if 'patch_applies=no' in res:
    m.setdefault('superseded_note','the patch no longer applies to /repo at %s (a later fix: commit rewrote the same code); earlier recorded results are kept'%head)
    m['last_run']={'repo_head':head,'result':'patch does not apply'}
elif kv.get('suite_ok')!='yes':
    m.setdefault('superseded_note','against /repo at %s this patch makes the pinned suite fail (it is caught by the existing tests), so it no longer qualifies as a seeded change; earlier recorded results are kept'%head)
    m['last_run']={'repo_head':head,'result':'pinned suite fails with the patch'}
elif kv.get('demo_fails_with')!='yes' and 'superseded_note' in m:
    m['last_run']={'repo_head':head,'result':'demonstration no longer fails (change neutralised by a later fix)'}
else:
    m['confirmed']={'pinned_suite_passes_with_patch':kv.get('suite_ok')=='yes','demo_fails_with_patch':kv.get('demo_fails_with')=='yes','demo_passes_without_patch':kv.get('demo_passes_without')=='yes','how':'scripts/verify_seed.sh (scratch worktrees of /repo at %s, removed afterwards)'%head}
    m['detected_by']={'check':'./check %s quick'%prop,'exit':int(kv.get(prop,'-1')),'first_violation':viol.strip()}
    m['last_run']={'repo_head':head,'result':'confirmed and run'}
json.dump(m,open(p,'w'),indent=1,ensure_ascii=False)
print(m['id'],res, '|', viol.strip()[:120])
EOF
done
