#!/bin/bash
# Development helper: runs checks against a scratch worktree of /repo with a patch applied
# (or a fix commit reverted). Usage:
#   try_break.sh -r <commit>  <prop> [tier]      revert a commit
#   try_break.sh -p <patch>   <prop> [tier]      apply a patch
set -u
mode=$1; arg=$2; prop=$3; tier=${4:-quick}
WT=$(mktemp -d /var/tmp/wt.XXXXXX)
git -C /repo worktree add -q --detach "$WT" HEAD || exit 2
cp /repo/go.sum "$WT/go.sum"
if [ "$mode" = "-r" ]; then
  (cd "$WT" && git revert --no-commit "$arg" >/dev/null) || { echo "revert failed"; }
else
  (cd "$WT" && git apply "$arg") || { echo "apply failed"; }
fi
cd "$(dirname "$0")/.."
for p in $prop; do VERIF_REPO="$WT" ./check "$p" "$tier" 2>&1 | tail -${TAIL:-6}; echo "exit=${PIPESTATUS[0]}"; done
git -C /repo worktree remove --force "$WT"
rm -rf "$WT"
