#!/bin/bash
# benign_run.sh <a|b> "<nn:props>"...
tag=$1; shift
for spec in "$@"; do
  n=${spec%%:*}; props=${spec#*:}
  echo "=== $tag/$n props: $props"
  TAIL=3 /verif/scripts/try_break.sh -p /verif/benign/$tag-$n.patch.diff "$props" quick 2>&1 | grep -E "VIOLATION|ERROR|kind=|exit=|-> exit|apply failed" | cut -c1-300
done
echo "=== done $tag"
